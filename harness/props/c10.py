"""C10 — removing or cutting out network elements leaves no dangling references.

case   = {"net": well-formed network spec (grid of lanelet cells, shared signs / lights, stop lines, intersections),
          "ops": removals at LaneletNetwork and Scenario level (single / list form), cut-outs, create_from_lanelet_list}
oracle = the property statement evaluated on the observed network before / after every operation (function judge):
         kept set exact, no dangling reference of the listed kinds, every kept element's content = the old content
         minus the references to what left, signs / lights leave with a lanelet only if no kept lanelet references them
corr   = Model/Network.v evaluated by vm_compute on the same sequences (Corr/C10.v): the complete id-valued content
         of the network (relations as sets) and the payload hashes after every step must agree."""
import math
import warnings

import numpy as np

from vlib.core import qz, qb, qlist, qopt, sha
from vlib.flow import load_corpus
from vlib.scen import snapshot

from commonroad.common.common_lanelet import LaneletType, LineMarking, StopLine
from commonroad.geometry.shape import Circle, Polygon, Rectangle
from commonroad.scenario.intersection import Intersection, IntersectionIncomingElement
from commonroad.scenario.lanelet import Lanelet, LaneletNetwork
from commonroad.scenario.scenario import Scenario, ScenarioID
from commonroad.scenario.traffic_light import (TrafficLight, TrafficLightCycle, TrafficLightCycleElement,
                                               TrafficLightState)
from commonroad.scenario.traffic_sign import TrafficSign, TrafficSignElement, TrafficSignIDGermany

RULE = ("well-formed networks of 2-14 lanelets on a grid of cells (10 x 4 m pitch, 8 x 3 m cells) with random predecessor "
        "/ successor lists, mutual and one-sided adjacency, 0-4 signs and 0-3 lights shared between lanelets (some "
        "unreferenced), stop lines referring to a subset of their lanelet's signs / lights (or None), 0-2 intersections "
        "with 1-3 incomings (lanelet sets, three successor sets - possibly empty -, left_of) and crossings; sequences of "
        "1-6 operations: remove lanelet / sign / light / intersection at network and scenario level (single, list, "
        "referenced_elements on/off), cut-out by rectangle / circle / polygon and / or excluded lanelet types, "
        "create_from_lanelet_list.  evaluations = steps; distinct = distinct (network, ops) cases; non-trivial = at "
        "least one step removes an element that another remaining element referred to")
ASSUME = ["cut-out shapes are rectangles, circles and convex polygons whose boundary keeps a distance > 0.2 m from every "
          "lanelet cell boundary; which lanelets a shape selects is computed from the cell coordinates (not by shapely) "
          "for the oracle and passed to the model as a boolean per lanelet; for a circle the disc the library exports is "
          "used (half the radius: C06's known finding Circle.shapely_object:radius), with the margin kept for both radii",
          "create_from_lanelet_network / create_from_lanelet_list are called with cleanup_ids=True (the default)",
          "an incoming element none of whose incoming lanelets remains, and an intersection left without such an "
          "incoming element, may be dropped by a cut-out (the scenario format cannot express them); an incoming "
          "element dropped although incoming lanelets of it remain is reported (known finding)",
          "left_of (an incoming-element id) must stay unchanged on kept incoming elements while the incoming element it "
          "names remains and must not name an incoming element that is gone",
          "Scenario-level list removals name distinct elements that are contained (anything else raises KeyError in "
          "the id bookkeeping, property C09)",
          "TrafficSign.first_occurrence, adjacent areas and the obstacle registries of a lanelet are not references "
          "the property lists"]

TYPES = [LaneletType.URBAN, LaneletType.HIGHWAY, LaneletType.BUS_LANE, LaneletType.CROSSWALK, LaneletType.SIDEWALK]
TNAME = [t.name for t in TYPES]
PX, PY, CW, CH = 10.0, 4.0, 8.0, 3.0


# ------------------------------------------------------------------------------------ generator
def subset(rng, pool, lo, hi):
    pool = list(pool)
    return sorted(rng.sample(pool, min(len(pool), rng.randint(lo, hi)))) if pool else []


def gen_net(rng):
    n = rng.choice([2, 3, 4, 5, 6, 8, 10, 14])
    cols = rng.choice([2, 3, 4, 5])
    ids = rng.sample(range(1, 40), n)
    if rng.random() < 0.25:
        ids[rng.randrange(n)] = 0          # 0 is a lanelet id like any other
    sign_ids = [100 + i for i in rng.sample(range(1, 30), rng.randint(0, 4))]
    light_ids = [200 + i for i in rng.sample(range(1, 30), rng.randint(0, 3))]
    lanelets = []
    for k, i in enumerate(ids):
        others = [j for j in ids if j != i]
        ss = subset(rng, sign_ids, 0, 3) if rng.random() < 0.7 else []
        ts = subset(rng, light_ids, 0, 2) if rng.random() < 0.6 else []
        stop = None
        if rng.random() < 0.45:
            stop = {"signs": subset(rng, ss, 0, len(ss)) if rng.random() < 0.8 else None,
                    "lights": subset(rng, ts, 0, len(ts)) if rng.random() < 0.8 else None}
        la = {"id": i, "cell": [k % cols, k // cols],
              "pred": subset(rng, others, 0, 2), "succ": subset(rng, others, 0, 3),
              "adjL": [rng.choice(others), rng.random() < 0.7] if others and rng.random() < 0.5 else None,
              "adjR": [rng.choice(others), rng.random() < 0.7] if others and rng.random() < 0.5 else None,
              "signs": ss, "lights": ts, "stop": stop,
              "types": sorted(set(rng.sample(TNAME, rng.randint(1, 2))))}
        lanelets.append(la)
    if rng.random() < 0.5:  # mutual adjacency / successor-predecessor pairs as real maps have them
        for la in lanelets:
            if la["adjL"]:
                ot = next(x for x in lanelets if x["id"] == la["adjL"][0])
                ot["adjR"] = [la["id"], la["adjL"][1]]
            for s in la["succ"]:
                ot = next(x for x in lanelets if x["id"] == s)
                if la["id"] not in ot["pred"]:
                    ot["pred"] = sorted(ot["pred"] + [la["id"]])
    inters = []
    nid = 300
    for _ in range(rng.choice([0, 1, 1, 2])):
        xid = nid
        nid += 1
        incs = []
        for _ in range(rng.randint(1, 3)):
            incs.append({"id": nid, "lanelets": subset(rng, ids, 1, 2),
                         "right": subset(rng, ids, 0, 1), "straight": subset(rng, ids, 0, 2),
                         "left": subset(rng, ids, 0, 1), "left_of": None})
            nid += 1
        for inc in incs:
            if len(incs) > 1 and rng.random() < 0.6:
                inc["left_of"] = rng.choice([x["id"] for x in incs if x is not inc])
        inters.append({"id": xid, "incs": incs, "cross": subset(rng, ids, 0, 2)})
    # alias: lanelets that list the same signs / lights are constructed with ONE Python set object (Lanelet keeps the
    # caller's set): e.g. approach_lights = {30, 31} handed to both lanelets of an approach
    return {"lanelets": lanelets, "signs": sign_ids, "lights": light_ids, "inters": inters,
            "alias": rng.random() < 0.25, "moved": rng.choice([0, 0, 0, 0, 1, 2, 3]),
            # a second network cut out of this one (create_from_lanelet_list) before the removals: it is not selected
            # for anything, so whatever is removed here, its content stays what it was
            "bystander": rng.choice([None, None, None, "cut", "cut", "clean"])}


def cell_box(cell):
    x0, y0 = cell[0] * PX, cell[1] * PY
    return x0, y0, x0 + CW, y0 + CH


def gen_shape(rng, spec):
    cols = max(la["cell"][0] for la in spec["lanelets"]) + 1
    rows = max(la["cell"][1] for la in spec["lanelets"]) + 1
    k = rng.choice(["rect", "rect", "circ", "poly"])
    if k == "rect":
        c0, c1 = sorted((rng.randint(0, cols), rng.randint(0, cols)))
        r0, r1 = sorted((rng.randint(0, rows), rng.randint(0, rows)))
        # edges in the middle of the gaps between cells (or outside the grid)
        x0, x1 = c0 * PX - 1.0, c1 * PX + CW + 1.0
        y0, y1 = r0 * PY - 0.5, r1 * PY + CH + 0.5
        if rng.random() < 0.3:  # edges through the cells
            x0, x1 = c0 * PX + 3.0, c1 * PX + 5.0
        return {"k": "rect", "l": x1 - x0, "w": y1 - y0, "c": [(x0 + x1) / 2, (y0 + y1) / 2]}
    if k == "circ":
        return {"k": "circ", "r": rng.choice([1.0, 2.5, 6.0, 11.0, 17.0]),
                "c": [rng.randint(0, cols) * PX + rng.choice([4.0, 9.0]), rng.randint(0, rows) * PY + rng.choice([1.5, 3.5])]}
    cx, cy = rng.randint(0, cols) * PX + 4.0, rng.randint(0, rows) * PY + 1.5
    m = rng.randint(3, 6)
    rad = rng.choice([2.0, 7.0, 13.0])
    a0 = rng.uniform(0, 2 * math.pi)
    return {"k": "poly", "v": [[round(cx + rad * math.cos(a0 + 2 * math.pi * j / m), 3),
                               round(cy + rad * math.sin(a0 + 2 * math.pi * j / m), 3)] for j in range(m)]}


# --- which cells a shape meets, from the coordinates (separating axis test; margin = signed gap)
def poly_of(shape):
    if shape["k"] == "rect":
        cx, cy = shape["c"]
        hl, hw = shape["l"] / 2, shape["w"] / 2
        return [[cx - hl, cy - hw], [cx + hl, cy - hw], [cx + hl, cy + hw], [cx - hl, cy + hw]]
    return [list(p) for p in shape["v"]]


def sat_gap(P, Q):
    """largest separating gap of two convex polygons (> 0: disjoint, < 0: overlap depth along the best axis)"""
    best = -1e18
    for A, B in ((P, Q), (Q, P)):
        m = len(A)
        for j in range(m):
            ex, ey = A[(j + 1) % m][0] - A[j][0], A[(j + 1) % m][1] - A[j][1]
            ln = math.hypot(ex, ey)
            if ln == 0:
                continue
            nx, ny = ey / ln, -ex / ln
            a = [p[0] * nx + p[1] * ny for p in A]
            b = [p[0] * nx + p[1] * ny for p in B]
            best = max(best, min(b) - max(a), min(a) - max(b))
    return best


def circ_factor():
    """radius of the disc the library exports for Circle(1.0).  Circle.shapely_object buffers with radius / 2 (known
    finding of C06, 'Circle.shapely_object:radius'); which lanelets a circle selects is geometry, not C10's subject, so
    the selection is computed for the disc that is exported (1.0 once that finding is repaired)."""
    b = Circle(1.0).shapely_object.bounds
    return round((b[2] - b[0]) / 2, 6)


CIRC = circ_factor()


def gap(shape, cell, factor=None):
    x0, y0, x1, y1 = cell_box(cell)
    if shape["k"] == "circ":
        cx, cy = shape["c"]
        dx, dy = max(x0 - cx, 0, cx - x1), max(y0 - cy, 0, cy - y1)
        return math.hypot(dx, dy) - shape["r"] * (CIRC if factor is None else factor)
    return sat_gap(poly_of(shape), [[x0, y0], [x1, y0], [x1, y1], [x0, y1]])


def shape_ok(shape, spec):
    return all(abs(gap(shape, la["cell"], f)) > 0.2 for la in spec["lanelets"] for f in (0.5, 1.0))


def make_shape(shape):
    if shape["k"] == "rect":
        return Rectangle(shape["l"], shape["w"], np.array(shape["c"], dtype=float))
    if shape["k"] == "circ":
        return Circle(shape["r"], np.array(shape["c"], dtype=float))
    return Polygon(np.array(shape["v"], dtype=float))


# ------------------------------------------------------------------------------------ building the objects
def build(spec):
    net = LaneletNetwork()
    shared = {}

    def idset(kind, ids):
        if not spec.get("alias"):
            return set(ids)
        return shared.setdefault((kind, tuple(sorted(ids))), set(ids))
    for s in spec["signs"]:
        net.add_traffic_sign(TrafficSign(s, [TrafficSignElement(TrafficSignIDGermany.MAX_SPEED, [str(s % 7 * 10)])], set(),
                                         np.array([float(s), 1.0])), set())
    for t in spec["lights"]:
        net.add_traffic_light(TrafficLight(t, np.array([float(t), 2.0]), TrafficLightCycle(
            [TrafficLightCycleElement(TrafficLightState.RED, 1 + t % 5), TrafficLightCycleElement(TrafficLightState.GREEN, 3)])),
            set())
    moved = []
    for la in spec["lanelets"]:
        cell = la["cell"]
        if spec.get("moved") and la["id"] % 3 == spec["moved"] % 3:
            # this lanelet is built one grid row away and, once it is in the network, moved to its cell through
            # Lanelet.translate_rotate (whole-cell offsets are exact): selections go by where the lanelet IS
            cell = [la["cell"][0], la["cell"][1] + 7]
            moved.append((la["id"], np.array([0.0, -7.0 * PY])))
        x0, y0, x1, y1 = cell_box(cell)
        left = np.array([[x0, y1], [x1, y1]])
        right = np.array([[x0, y0], [x1, y0]])
        stop = None
        if la["stop"] is not None:
            st = la["stop"]
            stop = StopLine(np.array([x1, y0]), np.array([x1, y1]), LineMarking.SOLID,
                            None if st["signs"] is None else set(st["signs"]),
                            None if st["lights"] is None else set(st["lights"]))
        net.add_lanelet(Lanelet(
            left, (left + right) / 2, right, la["id"], predecessor=list(la["pred"]), successor=list(la["succ"]),
            adjacent_left=la["adjL"][0] if la["adjL"] else None,
            adjacent_left_same_direction=la["adjL"][1] if la["adjL"] else None,
            adjacent_right=la["adjR"][0] if la["adjR"] else None,
            adjacent_right_same_direction=la["adjR"][1] if la["adjR"] else None,
            line_marking_left_vertices=LineMarking.DASHED, stop_line=stop,
            lanelet_type={LaneletType[t] for t in la["types"]},
            traffic_signs=idset("s", la["signs"]), traffic_lights=idset("l", la["lights"])), rtree=False)
    for x in spec["inters"]:
        net.add_intersection(Intersection(x["id"], [
            IntersectionIncomingElement(i["id"], set(i["lanelets"]), set(i["right"]), set(i["straight"]), set(i["left"]),
                                        i["left_of"]) for i in x["incs"]], set(x["cross"])))
    net._create_strtree()
    for lid, delta in moved:
        net.find_lanelet_by_id(lid).translate_rotate(delta, 0.0)
    return net


def holder(net):
    sc = Scenario(0.1, ScenarioID())
    sc.add_objects(net)
    return sc


REL_FIELDS = {"lanelet_id", "predecessor", "successor", "adj_left", "adj_left_same_direction", "adj_right",
              "adj_right_same_direction", "traffic_signs", "traffic_lights", "lanelet_type"}


def payload(obj, drop=()):
    snap = snapshot(obj)
    for k in drop:
        snap.pop(k, None)
    if isinstance(snap.get("stop_line"), dict):
        snap["stop_line"] = {k: v for k, v in snap["stop_line"].items() if k not in ("traffic_sign_ref", "traffic_light_ref")}
    return int(sha(snap), 16)


def observe(net):
    ls = {}
    for la in net.lanelets:
        st = la.stop_line
        ls[la.lanelet_id] = {
            "pred": sorted(la.predecessor), "succ": sorted(la.successor),
            "adjL": None if la.adj_left is None else [la.adj_left, la.adj_left_same_direction],
            "adjLdir": la.adj_left_same_direction,
            "adjR": None if la.adj_right is None else [la.adj_right, la.adj_right_same_direction],
            "adjRdir": la.adj_right_same_direction,
            "signs": sorted(la.traffic_signs), "lights": sorted(la.traffic_lights),
            "stop": None if st is None else [sorted(st.traffic_sign_ref or []), sorted(st.traffic_light_ref or [])],
            "types": sorted(t.name for t in la.lanelet_type), "payload": payload(la, REL_FIELDS)}
    xs = {}
    for x in net.intersections:
        xs[x.intersection_id] = {"incs": [{"id": i.incoming_id, "lanelets": sorted(i.incoming_lanelets),
                                           "right": sorted(i.successors_right), "straight": sorted(i.successors_straight),
                                           "left": sorted(i.successors_left), "left_of": i.left_of} for i in x.incomings],
                                 "cross": sorted(x.crossings),
                                 # the public lookup derived from the incoming elements (asked before and after every
                                 # step, as a user - or the renderer - would)
                                 "lookup": sorted(x.map_incoming_lanelets)}
    net_lookup = sorted(net.map_inc_lanelets_to_intersections)
    for x in xs.values():
        x["net_lookup"] = net_lookup
    return {"lanelets": ls, "signs": {s.traffic_sign_id: payload(s, ("traffic_sign_id",)) for s in net.traffic_signs},
            "lights": {t.traffic_light_id: payload(t, ("traffic_light_id",)) for t in net.traffic_lights}, "inters": xs}


# ------------------------------------------------------------------------------------ operations
def selected_ids(before, op, spec):
    """the lanelets a cut-out keeps, from the spec geometry and the type sets"""
    cells = {la["id"]: la["cell"] for la in spec["lanelets"]}
    keep = []
    for i, la in before["lanelets"].items():
        if set(la["types"]) & set(op["excl"]):
            continue
        if op["shape"] is not None and gap(op["shape"], cells[i]) > 0:
            continue
        keep.append(i)
    return keep


def apply_op(sc, op, spec):
    """runs the operation; returns (holder afterwards, coq op term, exception name | None)"""
    net = sc.lanelet_network
    o = op["op"]
    zl = lambda l: qlist([qz(z) for z in l])  # noqa
    try:
        if o == "n_remove":
            term = {"lanelet": "NRemoveLanelet", "sign": "NRemoveSign", "light": "NRemoveLight",
                    "inter": "NRemoveInter"}[op["kind"]] + " " + qz(op["id"])
            {"lanelet": net.remove_lanelet, "sign": net.remove_traffic_sign, "light": net.remove_traffic_light,
             "inter": net.remove_intersection}[op["kind"]](op["id"])
        elif o == "s_remove":
            find = {"lanelet": net.find_lanelet_by_id, "sign": net.find_traffic_sign_by_id,
                    "light": net.find_traffic_light_by_id, "inter": net.find_intersection_by_id}[op["kind"]]
            objs = [find(i) for i in op["ids"]]
            arg = objs if op["list"] else objs[0]
            if op["kind"] == "lanelet":
                term = f"SRemoveLanelets {zl(op['ids'])} {qb(op['refs'])}"
                sc.remove_lanelet(arg, op["refs"])
            else:
                term = {"sign": "SRemoveSigns", "light": "SRemoveLights", "inter": "SRemoveInters"}[op["kind"]] \
                    + " " + zl(op["ids"])
                {"sign": sc.remove_traffic_sign, "light": sc.remove_traffic_light,
                 "inter": sc.remove_intersection}[op["kind"]](arg)
        elif o == "cutout":
            cells = {la["id"]: la["cell"] for la in spec["lanelets"]}
            sel = [la.lanelet_id for la in net.lanelets
                   if op["shape"] is not None and gap(op["shape"], cells[la.lanelet_id]) < 0]
            term = f"CutOut {zl(sel)} {qb(op['shape'] is not None)} {zl([TNAME.index(t) for t in op['excl']])}"
            kw = {}
            if op["shape"] is not None:
                kw["shape_input"] = make_shape(op["shape"])
            if op["excl"] or op.get("excl_given"):
                kw["exclude_lanelet_types"] = {LaneletType[t] for t in op["excl"]}
            new = LaneletNetwork.create_from_lanelet_network(net, **kw)
            sc = holder(new)
        elif o == "from_list":
            term = f"FromList {zl(op['ids'])}"
            new = LaneletNetwork.create_from_lanelet_list([net.find_lanelet_by_id(i) for i in op["ids"]])
            sc = holder(new)
        else:
            raise RuntimeError(o)
    except (KeyError, ValueError, AssertionError, AttributeError, TypeError) as e:
        return sc, term, type(e).__name__
    return sc, term, None


def sig_name(op):
    """call site as it appears in failure signatures"""
    return "create_from_lanelet_network" if op["op"] == "cutout" else op_name(op)


def op_name(op):
    o = op["op"]
    if o == "n_remove":
        return "LaneletNetwork.remove_" + op["kind"]
    if o == "s_remove":
        return "Scenario.remove_" + op["kind"] + ("[list]" if op["list"] else "") + \
            ("(referenced_elements=False)" if op["kind"] == "lanelet" and not op["refs"] else "")
    if o == "cutout":
        return "create_from_lanelet_network(" + ",".join((["shape"] if op["shape"] else []) + (["types"] if op["excl"] else [])) + ")"
    return "create_from_lanelet_list"


# ------------------------------------------------------------------------------------ the property, executable
TOLERATED = ("incoming element whose incoming lanelets remain is dropped",
             "intersection not selected for removal is missing although incoming lanelets of it remain")


def judge(before, after, op, spec):
    """the statement of C10 for one step.  Returns the list of (problem, detail) found (empty: the step is fine)."""
    out = []
    o = op["op"]
    L0, S0, T0, X0 = before["lanelets"], before["signs"], before["lights"], before["inters"]
    L1, S1, T1, X1 = after["lanelets"], after["signs"], after["lights"], after["inters"]
    # 1. which elements were selected for removal
    rmL, rmS, rmT, rmX = set(), set(), set(), set()
    if o in ("n_remove", "s_remove"):
        ids = [op["id"]] if o == "n_remove" else op["ids"]
        {"lanelet": rmL, "sign": rmS, "light": rmT, "inter": rmX}[op["kind"]].update(ids)
    elif o == "cutout":
        rmL = set(L0) - set(selected_ids(before, op, spec))
    elif o == "from_list":
        rmL = set(L0) - set(op["ids"])
    keepL = set(L0) - rmL
    if set(L1) != keepL:
        return [("wrong set of lanelets remains", f"expected {sorted(keepL)}, found {sorted(L1)}")]
    # signs / lights: leave only if selected, or together with lanelets if no remaining lanelet references them
    for nm, A0, A1, rm, fld in (("sign", S0, S1, rmS, "signs"), ("light", T0, T1, rmT, "lights")):
        if not set(A1) <= set(A0):
            out.append((f"{nm} appeared", f"{sorted(set(A1) - set(A0))}"))
        if rm & set(A1):
            out.append((f"removed {nm} still present", f"{sorted(rm & set(A1))}"))
        gone = set(A0) - set(A1) - rm
        if not gone or o == "from_list":  # a network made from a list of lanelets holds lanelets only
            continue
        still_ref = {z for i in keepL for z in L0[i][fld]}
        if gone & still_ref:
            out.append((f"{nm} removed although a remaining lanelet references it", f"{sorted(gone & still_ref)}"))
        if o in ("n_remove", "s_remove"):  # "together with a lanelet": one of the removed lanelets referenced it
            was_ref = {z for i in rmL for z in L0[i][fld]}
            if gone - was_ref:
                out.append((f"{nm} not selected for removal is missing", f"{sorted(gone - was_ref)}"))
            # ... and only Scenario.remove_lanelet with referenced_elements=True takes hanging signs / lights along
            elif not (o == "s_remove" and op["kind"] == "lanelet" and op.get("refs", True)):
                out.append((f"{nm} not selected for removal is missing",
                            f"{sorted(gone)} left with the lanelets although "
                            + ("referenced_elements=False" if o == "s_remove" else "LaneletNetwork.remove_* removes "
                               "nothing but the element named")))
    # intersections
    if not set(X1) <= set(X0):
        return out + [("intersection appeared", f"{sorted(set(X1) - set(X0))}")]
    if rmX & set(X1):
        out.append(("removed intersection still present", f"{sorted(rmX & set(X1))}"))
    if o != "from_list":
        for xi in sorted(set(X0) - set(X1) - rmX):
            alive = [i["id"] for i in X0[xi]["incs"] if set(i["lanelets"]) & keepL]
            if o != "cutout" or alive:
                out.append(("intersection not selected for removal is missing" + (
                    " although incoming lanelets of it remain" if o == "cutout" else ""),
                    f"intersection {xi}, incomings with remaining lanelets {alive}"))

    # 2. content of every remaining element = old content minus references to what left
    def flt(l, keep):
        return sorted(z for z in l if z in keep)

    keepS, keepT = set(S1), set(T1)
    for i in sorted(keepL):
        a, b = L0[i], L1[i]
        exp = {"pred": flt(a["pred"], keepL), "succ": flt(a["succ"], keepL),
               "adjL": a["adjL"] if a["adjL"] and a["adjL"][0] in keepL else None,
               "adjR": a["adjR"] if a["adjR"] and a["adjR"][0] in keepL else None,
               "signs": flt(a["signs"], keepS), "lights": flt(a["lights"], keepT),
               "stop": None if a["stop"] is None else [flt(a["stop"][0], keepS), flt(a["stop"][1], keepT)],
               "types": a["types"], "payload": a["payload"]}
        for k, v in exp.items():
            if b[k] != v:
                if k == "stop":
                    pr = "lanelet stop line: " + _what(
                        ([z for z in b[k][0] if z not in keepS] + [z for z in b[k][1] if z not in keepT]) if b[k] else [],
                        set(), "lanelet")
                else:
                    pr = f"lanelet {k}: " + _what(_refs(k, b[k]), {"signs": keepS, "lights": keepT}.get(k, keepL), "lanelet")
                out.append((pr, f"lanelet {i}: {k} was {a[k]}, is {b[k]}, expected {v}"))
    for nm, A0, A1 in (("sign", S0, S1), ("light", T0, T1)):
        for z in A1:
            if z in A0 and A0[z] != A1[z]:
                out.append((f"content of a remaining {nm} changed", f"{nm} {z}"))
    for xi in sorted(X1):
        a, b = X0[xi], X1[xi]
        if b["cross"] != flt(a["cross"], keepL):
            out.append(("intersection crossings: " + _what(b["cross"], keepL, "intersection"),
                        f"intersection {xi}: crossings {a['cross']} -> {b['cross']}"))
        # the public lookups derived from the incoming elements name remaining lanelets only
        for k, what in (("lookup", "Intersection.map_incoming_lanelets"),
                        ("net_lookup", "LaneletNetwork.map_inc_lanelets_to_intersections")):
            dangling = [z for z in b.get(k, []) if z not in keepL]
            if dangling:
                out.append((f"{what}: " + _what(dangling, keepL, "intersection"),
                            f"intersection {xi}: {what} names {dangling}, remaining lanelets {sorted(keepL)}"))
        old = {i["id"]: i for i in a["incs"]}
        new = {i["id"]: i for i in b["incs"]}
        if not set(new) <= set(old) or len(new) != len(b["incs"]):
            out.append(("incoming element appeared", f"intersection {xi}"))
            continue
        for ii in sorted(set(old) - set(new)):
            rest = flt(old[ii]["lanelets"], keepL)
            if o != "cutout" or rest:
                out.append(("incoming element whose incoming lanelets remain is dropped" if rest else
                            "incoming element dropped", f"intersection {xi} incoming {ii}: remaining incoming lanelets "
                            f"{rest}, remaining successors {flt(old[ii]['right'] + old[ii]['straight'] + old[ii]['left'], keepL)}"))
        for ii, nb in new.items():
            oa = old[ii]
            for k in ("lanelets", "right", "straight", "left"):
                if nb[k] != flt(oa[k], keepL):
                    out.append((f"incoming {k}: " + _what(nb[k], keepL, "intersection"),
                                f"intersection {xi} incoming {ii}: {k} {oa[k]} -> {nb[k]}"))
            # left_of: unchanged while the incoming element it names remains, no reference to a dropped one
            if oa["left_of"] in new:
                if nb["left_of"] != oa["left_of"]:
                    out.append(("left_of between remaining incoming elements changed", f"intersection {xi} incoming {ii}"))
            elif nb["left_of"] is not None:
                out.append(("left_of names an incoming element that is not part of the intersection any more"
                            if nb["left_of"] == oa["left_of"] else "left_of changed",
                            f"intersection {xi} incoming {ii}: left_of {oa['left_of']} -> {nb['left_of']}, "
                            f"remaining incoming elements {sorted(new)}"))
    return out


def _refs(k, v):
    """the ids a lanelet attribute holds"""
    if k in ("adjL", "adjR"):
        return [v[0]] if v else []
    if k in ("types", "payload"):
        return []
    return list(v or [])


def _what(ids, keep, owner):
    return "reference to a removed element remains" if any(z not in keep for z in ids) \
        else f"content of a remaining {owner} changed"


def execute(case, chooser=None):
    """runs the case; returns (failures [(signature, what)], trace [(coq op, observation)], start observation).
    A step whose only problems are the TOLERATED ones (recorded in known_findings.json) does not end the sequence."""
    spec = case["net"]
    sc = holder(build(spec))
    start = observe(sc.lanelet_network)
    trace, failures = [], []
    by = by0 = None
    if spec.get("bystander"):
        by = LaneletNetwork.create_from_lanelet_list(list(sc.lanelet_network.lanelets),
                                                     cleanup_ids=spec["bystander"] == "clean")
        by0 = observe(by)
    ops = case["ops"]
    step = 0
    while True:
        if chooser is not None:
            op = chooser(observe(sc.lanelet_network), step)
            if op is None:
                break
            ops.append(op)
        elif step >= len(ops):
            break
        else:
            op = ops[step]
        before = observe(sc.lanelet_network)
        sc, term, exc = apply_op(sc, op, spec)
        if exc:
            failures.append((f"{sig_name(op)}:raises {exc}", f"step {step} {op}: raises {exc}"))
            break
        after = observe(sc.lanelet_network)
        trace.append((term, after))
        prs = judge(before, after, op, spec)
        for pr in prs:
            failures.append((f"{sig_name(op)}:{pr[0]}", f"step {step} {op}: {pr[0]}; {pr[1]}"))
        if any(pr[0] not in TOLERATED for pr in prs):
            break
        if by is not None:
            by1 = observe(by)
            if by1 != by0:
                diff = sorted(k for k in by0["lanelets"] if by1["lanelets"].get(k) != by0["lanelets"][k])[:4] \
                    if isinstance(by0, dict) and "lanelets" in by0 else "?"
                failures.append((f"{sig_name(op)}:network cut out before the removal changed",
                                 f"step {step} {op}: a network built by create_from_lanelet_list(cleanup_ids="
                                 f"{spec['bystander'] == 'clean'}) from this network's lanelets before the removal has "
                                 f"different content afterwards (lanelets {diff})"))
                break
        step += 1
    return failures, trace, start


def oracle(case):
    fs = execute({"net": case["net"], "ops": list(case["ops"])})[0]
    return fs[0] if fs else None


def signatures(case):
    return [f[0] for f in execute({"net": case["net"], "ops": list(case["ops"])})[0]]


def make_chooser(rng, spec, n_steps):
    def chooser(cur, step):
        if step >= n_steps or not cur["lanelets"]:
            return None
        r = rng.random()
        L, S, T, X = sorted(cur["lanelets"]), sorted(cur["signs"]), sorted(cur["lights"]), sorted(cur["inters"])
        if r < 0.22:
            for _ in range(20):
                shape = gen_shape(rng, spec) if rng.random() < 0.85 else None
                if shape is None or shape_ok(shape, spec):
                    break
            else:
                shape = None
            excl = sorted(rng.sample(TNAME, rng.randint(1, 2))) if rng.random() < 0.4 or shape is None else []
            return {"op": "cutout", "shape": shape, "excl": excl}
        if r < 0.28:
            return {"op": "from_list", "ids": [i for i in L if rng.random() < 0.6] or L[:1]}
        kinds = ["lanelet"] * 4 + (["sign"] * 2 if S else []) + (["light"] * 2 if T else []) + (["inter"] if X else [])
        kind = rng.choice(kinds)
        pool = {"lanelet": L, "sign": S, "light": T, "inter": X}[kind]
        if rng.random() < 0.4:
            return {"op": "n_remove", "kind": kind, "id": rng.choice(pool)}
        as_list = rng.random() < 0.5
        ids = rng.sample(pool, rng.randint(1, min(3, len(pool))) if as_list else 1)
        return {"op": "s_remove", "kind": kind, "ids": ids, "list": as_list, "refs": rng.random() < 0.7}

    return chooser


def gen_case(rng):
    spec = gen_net(rng)
    case = {"net": spec, "ops": []}
    failures, trace, start = execute(case, make_chooser(rng, spec, rng.randint(1, 6)))
    return case, failures, trace, start


# ------------------------------------------------------------------------------------ Coq terms
def coq_net(ob):
    zl = lambda l: qlist([qz(z) for z in l])  # noqa
    ls = []
    for i in sorted(ob["lanelets"]):
        a = ob["lanelets"][i]
        adjl = qopt(a["adjL"][0] if a["adjL"] else None, qz)
        adjr = qopt(a["adjR"][0] if a["adjR"] else None, qz)
        stop = "None" if a["stop"] is None else f"(Some ({zl(a['stop'][0])}, {zl(a['stop'][1])}))"
        ls.append(f"(mkL {qz(i)} {zl(a['pred'])} {zl(a['succ'])} {adjl} {qopt(a['adjLdir'], qb)} {adjr} "
                  f"{qopt(a['adjRdir'], qb)} {zl(a['signs'])} {zl(a['lights'])} {stop} "
                  f"{zl(sorted(TNAME.index(t) for t in a['types']))} {qz(a['payload'])})")
    xs = []
    for i in sorted(ob["inters"]):
        x = ob["inters"][i]
        incs = [f"(mkI {qz(c['id'])} {zl(c['lanelets'])} {zl(c['right'])} {zl(c['straight'])} {zl(c['left'])} "
                f"{qopt(c['left_of'], qz)})" for c in x["incs"]]
        xs.append(f"(mkX {qz(i)} {qlist(incs)} {zl(x['cross'])})")
    ss = qlist([f"({qz(z)}, {qz(ob['signs'][z])})" for z in sorted(ob["signs"])])
    ts = qlist([f"({qz(z)}, {qz(ob['lights'][z])})" for z in sorted(ob["lights"])])
    return f"(mkN {qlist(ls)} {ss} {ts} {qlist(xs)})"


def coq_case(start, trace):
    return f"({coq_net(start)}, {qlist([f'({t}, {coq_net(ob)})' for t, ob in trace])})"


def corr(ctx, items):
    imports = ("From Coq Require Import ZArith List Bool NArith.\nImport ListNotations.\n"
               "From CR Require Import Model.Network Corr.C10.\nOpen Scope Z_scope.\n")
    terms = [coq_case(s, t) for _, t, s in items]
    bad, errors = ctx.coq_bad_indices("corr", imports, "", terms, "check", shard=ctx.n(60, 120))
    ctx.coverage["correspondence_sequences"] = len(terms)
    ctx.coverage["correspondence_steps"] = sum(len(t) for _, t, _ in items)
    for e in errors:
        ctx.corr_break("Corr.C10.check (coqc failed)", e)
    for i in bad:
        ctx.corr_break("Corr.C10.check: Model/Network.v vs LaneletNetwork / Scenario (network content after every step)",
                       items[i][0])
    ctx.log(f"corr sequences={len(terms)} steps={ctx.coverage['correspondence_steps']} disagree={len(bad)} "
            f"coq_errors={len(errors)}")


def nontrivial(start, trace):
    """some step removed an element that a remaining element referred to"""
    prev = start
    for _, ob in trace:
        goneL = set(prev["lanelets"]) - set(ob["lanelets"])
        goneS = (set(prev["signs"]) - set(ob["signs"])) | (set(prev["lights"]) - set(ob["lights"]))
        for i in ob["lanelets"]:
            a = prev["lanelets"][i]
            refs = set(a["pred"]) | set(a["succ"]) | ({a["adjL"][0]} if a["adjL"] else set()) | \
                ({a["adjR"][0]} if a["adjR"] else set())
            if refs & goneL or (set(a["signs"]) | set(a["lights"])) & goneS:
                return True
        for xi in ob["inters"]:
            x = prev["inters"][xi]
            if any((set(c["lanelets"]) | set(c["right"]) | set(c["straight"]) | set(c["left"])) & goneL for c in x["incs"]):
                return True
        prev = ob
    return False


def run(ctx):
    warnings.filterwarnings("ignore")
    ctx.trusted = ["Coq 8.16.1 kernel + vm_compute (no native_compute)",
                   "axioms: none (Print Assumptions: Closed under the global context for every theorem)",
                   "hand-written model coq/Model/Network.v of the removal / cleanup / cut-out methods of "
                   "commonroad/scenario/lanelet.py (LaneletNetwork) and the network part of Scenario.remove_*, tied to the "
                   "code by the correspondence relation coq/Corr/C10.v on every run",
                   "the geometric selection of a cut-out (shapely intersects on lanelet polygons) enters the model as one "
                   "boolean per lanelet; the harness computes it from the cell coordinates with a separating-axis test",
                   "harness/props/c10.py (network generator, statement oracle, payload hashes, Coq term printer)"]
    ctx.trusted.insert(3, "harness/props/c10_src.py: parser of the syntax trees of LaneletNetwork.cleanup_lanelet_references / "
                          "cleanup_traffic_sign_references / cleanup_traffic_light_references (assignment by assignment, into "
                          "rules) and remove_lanelet / remove_traffic_sign / remove_traffic_light / remove_intersection (which "
                          "dictionary, where the cleanup call stands) into coq/Gen/Src_network.v on every run (fail-closed); "
                          "C10_cleanup_is_source / C10_remove_is_source prove the parsed programs, run by the interpreter of "
                          "Model/NetworkSrc.v, equal to the functions of Model/Network.v on every network; trusted: the parser "
                          "and its reading of the accepted shapes (sets / lists of ids as lists compared as sets, "
                          "x.intersection(existing) = filter by membership, _F is what property F returns); the Scenario-level "
                          "methods and the cut-outs are tied by correspondence only")
    from props import c10_src
    try:
        changed = c10_src.generate()
        ctx.notes.append(f"Gen/Src_network.v regenerated from the source ({'changed' if changed else 'unchanged'})")
    except Exception as e:   # SourceShapeError, SyntaxError, OSError: the model is no longer shown to be the source
        ctx.proof_breaks.append({"theorem": "source parser:Gen/Src_network.v (C10_cleanup_is_source / C10_remove_is_source)",
                                 "where": "harness/props/c10_src.py", "log": str(e)})
        ctx.log(f"proof_broken theorem=C10_*_is_source (source parser: {e})")
    ctx.build_props(extra_targets=["Corr/C10.vo"])
    if ctx.tier == "thorough":
        ctx.coqchk()
    n = ctx.n(1200, 16000)
    items = []
    for c in load_corpus(ctx.prop):
        fs, t, s = execute({"net": c["net"], "ops": list(c["ops"])})
        for f in fs:
            ctx.fail(f[0], f[1], c)
        ctx.evaluations += len(t)
        items.append((c, t, s))
    for _ in range(n):
        case, failures, trace, start = gen_case(ctx.rng)
        for k, _ in enumerate(trace):
            ctx.evaluations += 1
            nm = op_name(case["ops"][k])
            ctx.dist[nm] = ctx.dist.get(nm, 0) + 1
        ctx.dist["sequences"] = ctx.dist.get("sequences", 0) + 1
        if nontrivial(start, trace):
            ctx.distinct.add(sha(case))
            if len(ctx.samples) < 2 and len(case["net"]["lanelets"]) <= 4:
                ctx.samples.append(case)
        for f in failures:  # the steps up to the failing one still take part in the correspondence
            seen = any(y["signature"] == f[0] for y in ctx.failures)  # only the first replay of a signature is kept
            ctx.fail(f[0], f[1], case if seen else shrink(case, f[0]))
        items.append((case, trace, start))
    if not ctx.samples and items:
        ctx.samples.append(items[0][0])
    corr(ctx, items)
    return ctx.finish(RULE, assumptions=ASSUME)


def shrink(case, sig):
    """a shorter operation sequence on the same network that still shows the failure [sig]"""
    def shows(ops):
        try:
            return sig in signatures({"net": case["net"], "ops": ops})
        except Exception:  # noqa  (an op may name an element that is gone once an earlier op is deleted)
            return False

    ops = list(case["ops"])
    if not shows(ops):
        return case
    for k in range(len(ops)):
        if shows(ops[:k + 1]):
            ops = ops[:k + 1]
            break
    i = 0
    while i < len(ops) - 1:
        trial = ops[:i] + ops[i + 1:]
        if shows(trial):
            ops = trial
        else:
            i += 1
    return {"net": case["net"], "ops": ops}
