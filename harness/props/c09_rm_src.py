"""C09 source tie for the removal methods: Scenario.remove_obstacle, remove_lanelet, remove_traffic_sign,
remove_traffic_light, remove_intersection, erase_lanelet_network and replace_lanelet_network
(commonroad/scenario/scenario.py) are parsed on every run into the statement language of coq/Model/IdRemoveSrc.v and
written to coq/Gen/Src_idremove.v; Proofs/SrcIdRemove.v proves the parsed programs to compute the removal steps of
Model/IdPool.v (exec o for every removal operation and Replace), which the C09 theorems are about.

Fail-closed: a statement outside the shapes listed in Model/IdRemoveSrc.v raises SourceShapeError (a broken obligation).
The methods are first brought into the normal form of vlib/astnorm.py (helpers other than the ones named in KEEP inlined,
guard clauses as one decision tree, aliases removed), so that a harmless rewrite gives the same shapes.  Parameter and
loop variable names are free; assert statements and docstrings are skipped.

Trusted: this parser and the reading of the accepted shapes (LaneletNetwork.remove_K = net_remove_K of Model/IdPool.v —
C10's subject, proved from its own source there; `set.remove` raises KeyError for an absent element; the element lists
LaneletNetwork.lanelets / traffic_signs / traffic_lights / intersections are built when the loop starts);
remove_hanging_lanelet_members and add_objects are not parsed (hand-written model + correspondence)."""
import ast
import hashlib
import os

from vlib.core import COQ, REPO
from vlib.py2coq import write_if_changed
from vlib import astnorm as N

FILE = os.path.join("commonroad", "scenario", "scenario.py")


class SourceShapeError(Exception):
    pass


def bad(node, why):
    raise SourceShapeError(f"scenario.py:{getattr(node, 'lineno', '?')}: {why}: {ast.unparse(node)[:150]}")


u = ast.unparse

KEEP = ("remove_obstacle", "remove_lanelet", "remove_traffic_sign", "remove_traffic_light", "remove_intersection",
        "erase_lanelet_network", "replace_lanelet_network", "remove_hanging_lanelet_members", "add_objects",
        "_remove_static_obstacle_from_lanelets", "_remove_dynamic_obstacle_from_lanelets")

KINDS = {  # method -> (constructor, LaneletNetwork method, id attribute, LaneletNetwork list property)
    "remove_lanelet": ("KLanelet", "remove_lanelet", "lanelet_id", "lanelets"),
    "remove_traffic_sign": ("KSign", "remove_traffic_sign", "traffic_sign_id", "traffic_signs"),
    "remove_traffic_light": ("KLight", "remove_traffic_light", "traffic_light_id", "traffic_lights"),
    "remove_intersection": ("KInter", "remove_intersection", "intersection_id", "intersections"),
}
ROLES = {"_static_obstacles": "Static", "_dynamic_obstacles": "Dynamic", "_environment_obstacle": "Env",
         "_phantom_obstacle": "Phantom"}


def body_of(fn):
    out = []
    for s in fn.body:
        if isinstance(s, ast.Expr) and isinstance(s.value, ast.Constant) and isinstance(s.value.value, str):
            continue
        if isinstance(s, ast.Assert):
            continue                              # argument type checks: wrong types are outside the domain
        out.append(s)
    return out


def method(tree, name):
    for c in tree.body:
        if isinstance(c, ast.ClassDef) and c.name == "Scenario":
            hits = [f for f in c.body if isinstance(f, ast.FunctionDef) and f.name == name]
            if len(hits) == 1 and not hits[0].decorator_list:
                return N.normal(hits[0], N.class_methods(tree, "Scenario"), KEEP)
    raise SourceShapeError(f"Scenario.{name} not found (or decorated / defined twice)")


def net_stmt(s, self_, e, kind):
    """one statement about the element e of a network kind"""
    ctor, lnm, idattr, _ = KINDS[kind]
    t = u(s)
    if t == f"{self_}.lanelet_network.{lnm}({e}.{idattr})" or t == f"{self_}._lanelet_network.{lnm}({e}.{idattr})":
        return f"QNet {ctor}"
    if t == f"{self_}._id_set.remove({e}.{idattr})":
        return "QId"
    if isinstance(s, ast.For) and not s.orelse and isinstance(s.target, ast.Name) and kind == "remove_intersection" \
            and u(s.iter) == f"{e}.incomings" and len(s.body) == 1 \
            and u(s.body[0]) == f"{self_}._id_set.remove({s.target.id}.incoming_id)":
        return "QIncs"
    bad(s, f"statement of {kind} outside the accepted shapes")


def lst(xs):
    return "[" + "; ".join(xs) + "]"


def list_branch(fn, self_, p, stmt_of):
    """`if isinstance(p, list): for e in p: ...  else: ...` -> (listmode text, statements of the else branch)"""
    body = body_of(fn)
    if len(body) != 1 or not isinstance(body[0], ast.If) or u(body[0].test) != f"isinstance({p}, list)":
        bad(fn, f"{fn.name} is not `if isinstance({p}, list): ... else: ...`")
    th, el = body[0].body, body[0].orelse
    if len(th) != 1 or not isinstance(th[0], ast.For) or th[0].orelse or not isinstance(th[0].target, ast.Name) \
            or u(th[0].iter) != p:
        bad(body[0], "the list branch is not one loop over the argument")
    e = th[0].target.id
    if len(th[0].body) == 1 and u(th[0].body[0]) == f"{self_}.{fn.name}({e})":
        mode = "LRecurse"
    else:
        mode = "LInline " + lst([stmt_of(s, e) for s in th[0].body])
    return mode, el


def parse_simple(fn):
    if len(fn.args.args) != 2 or fn.args.defaults or fn.args.vararg or fn.args.kwarg or fn.args.kwonlyargs:
        bad(fn, "parameters")
    self_, p = fn.args.args[0].arg, fn.args.args[1].arg
    mode, el = list_branch(fn, self_, p, lambda s, e: net_stmt(s, self_, e, fn.name))
    if not el:
        bad(fn, "no statements for a single element")
    return f"{{| rm_list := {mode}; rm_body := {lst([net_stmt(s, self_, p, fn.name) for s in el])} |}}"


def obst_stmt(s, self_, e):
    t = u(s)
    if t == f"{self_}._id_set.remove({e}.obstacle_id)":
        return "QId"
    if isinstance(s, ast.Delete) and len(s.targets) == 1:
        for d, r in ROLES.items():
            if u(s.targets[0]) == f"{self_}.{d}[{e}.obstacle_id]":
                return f"QDel {r}"
    if t in (f"{self_}._remove_static_obstacle_from_lanelets({e}.obstacle_id, {e}.initial_shape_lanelet_ids)",
             f"{self_}._remove_dynamic_obstacle_from_lanelets({e})"):
        return "QSkip"                            # lanelet registries: C07
    bad(s, "statement of remove_obstacle outside the accepted shapes")


def parse_obstacle(fn):
    if len(fn.args.args) != 2 or fn.args.defaults or fn.args.vararg or fn.args.kwarg or fn.args.kwonlyargs:
        bad(fn, "parameters")
    self_, p = fn.args.args[0].arg, fn.args.args[1].arg
    mode, el = list_branch(fn, self_, p, lambda s, e: obst_stmt(s, self_, e))
    branches = []
    while True:
        if len(el) == 1 and isinstance(el[0], ast.If):
            node = el[0]
            role = None
            for d, r in ROLES.items():
                if u(node.test) in (f"{p}.obstacle_id in {self_}.{d}", f"{p}.obstacle_id in {self_}.{d}.keys()"):
                    role = r
            if role is None:
                bad(node, "branch test of remove_obstacle")
            branches.append(f"({role}, {lst([obst_stmt(s, self_, p) for s in node.body])})")
            el = node.orelse
            continue
        # the last else: a warning only (or nothing)
        for s in el:
            if not (isinstance(s, ast.Expr) and isinstance(s.value, ast.Call) and u(s.value.func) == "warnings.warn"):
                bad(s, "the final else of remove_obstacle does more than warn")
        break
    return f"{{| om_list := {mode}; om_branches := {lst(branches)} |}}"


def parse_lanelet(fn):
    a = fn.args
    if len(a.args) != 3 or len(a.defaults) != 1 or a.vararg or a.kwarg or a.kwonlyargs:
        bad(fn, "parameters of remove_lanelet")
    if not (isinstance(a.defaults[0], ast.Constant) and isinstance(a.defaults[0].value, bool)):
        bad(fn, "default of referenced_elements is not a bool literal")
    dflt = "true" if a.defaults[0].value else "false"
    self_, p, refs = a.args[0].arg, a.args[1].arg, a.args[2].arg
    body = body_of(fn)
    if not body or u(body[0]) != f"if not isinstance({p}, list):\n    {p} = [{p}]":
        bad(fn, "remove_lanelet does not start by wrapping a single lanelet into a list")
    rest = body[1:]
    hanging = "false"
    if rest and isinstance(rest[0], ast.If) and u(rest[0].test) == refs:
        if rest[0].orelse or len(rest[0].body) != 1 \
                or u(rest[0].body[0]) != f"{self_}.remove_hanging_lanelet_members({p})":
            bad(rest[0], "the referenced_elements branch")
        hanging = "true"
        rest = rest[1:]
    if len(rest) != 1 or not isinstance(rest[0], ast.For) or rest[0].orelse or not isinstance(rest[0].target, ast.Name) \
            or u(rest[0].iter) != p:
        bad(fn, "remove_lanelet does not end with one loop over the lanelets")
    e = rest[0].target.id
    stmts = [net_stmt(s, self_, e, "remove_lanelet") for s in rest[0].body]
    return f"{{| lm_default_refs := {dflt}; lm_hanging_first := {hanging}; lm_body := {lst(stmts)} |}}"


def parse_erase(fn):
    if len(fn.args.args) != 1:
        bad(fn, "parameters")
    self_ = fn.args.args[0].arg
    out = []
    for s in body_of(fn):
        if isinstance(s, ast.For) and not s.orelse and isinstance(s.target, ast.Name) and len(s.body) == 1:
            hit = None
            for meth, (ctor, _, _, prop) in KINDS.items():
                if u(s.iter) in (f"{self_}.lanelet_network.{prop}", f"{self_}._lanelet_network.{prop}") \
                        and u(s.body[0]) == f"{self_}.{meth}({s.target.id})":
                    hit = f"ELoop {ctor}"
            if hit is None:
                bad(s, "loop of erase_lanelet_network")
            out.append(hit)
        elif u(s) == f"{self_}._lanelet_network = LaneletNetwork()":
            out.append("EReset")
        else:
            bad(s, "statement of erase_lanelet_network outside the accepted shapes")
    return lst(out)


def parse_replace(fn):
    if len(fn.args.args) != 2 or fn.args.defaults:
        bad(fn, "parameters")
    self_, p = fn.args.args[0].arg, fn.args.args[1].arg
    out = []
    for s in body_of(fn):
        if u(s) == f"{self_}.erase_lanelet_network()":
            out.append("PErase")
        elif u(s) == f"{self_}.add_objects({p})":
            out.append("PAddNet")
        else:
            bad(s, "statement of replace_lanelet_network outside the accepted shapes")
    return lst(out)


def text():
    raw = open(os.path.join(REPO, FILE), "rb").read()
    tree = ast.parse(raw)
    out = ["(* GENERATED on every run by harness/props/c09_rm_src.py from the syntax trees of Scenario.remove_obstacle, "
           "remove_lanelet,", "   remove_traffic_sign, remove_traffic_light, remove_intersection, erase_lanelet_network and "
           "replace_lanelet_network.  Do not edit.", f"   source: {FILE} sha1={hashlib.sha1(raw).hexdigest()} *)",
           "From Coq Require Import List.", "From CR Require Import Model.IdPool Model.IdRemoveSrc.", "Import ListNotations.", "",
           "Definition src_removal : removal_src := {|",
           f"  rs_obstacle := {parse_obstacle(method(tree, 'remove_obstacle'))};",
           f"  rs_lanelet := {parse_lanelet(method(tree, 'remove_lanelet'))};",
           f"  rs_sign := {parse_simple(method(tree, 'remove_traffic_sign'))};",
           f"  rs_light := {parse_simple(method(tree, 'remove_traffic_light'))};",
           f"  rs_inter := {parse_simple(method(tree, 'remove_intersection'))};",
           f"  rs_erase := {parse_erase(method(tree, 'erase_lanelet_network'))};",
           f"  rs_replace := {parse_replace(method(tree, 'replace_lanelet_network'))} |}}."]
    return "\n".join(out) + "\n"


def generate():
    return write_if_changed(os.path.join(COQ, "Gen", "Src_idremove.v"), text())


if __name__ == "__main__":
    print(text())
