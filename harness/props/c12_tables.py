"""C12 — generated tables: coq/Gen/Tables_C12.v is rewritten from the source on every run (only if changed).

  attrs_C12          class -> constructor-visible attributes A_K = named parameters of __init__ (inspect.signature),
                     SignalState: __slots__; LaneletNetwork / Scenario additionally the content added through add_*
  state_classes_C12  every concrete subclass of commonroad.scenario.state.State found in the module
  dynamic_classes_C12 classes whose attributes are chosen per instance (**kwargs constructors)
  optional_C12       class -> parameters whose default is None
  types_C12          class -> (attribute -> type of the values it holds, type of unlisted attributes); the types are
                     the constructors' type annotations (typing.get_type_hints; for attributes read back through
                     another property and for content added through add_*: the property's return annotation); an
                     annotated class stands for its registered subclasses; None (or whatever leaf value the
                     setter stores for a missing argument) is an alternative iff the attribute of an instance built
                     with every optional argument at its default holds it

  src_eq_C12         class -> (reads attributes by name at run time [getattr loops]?, attributes that the source text of
                     __eq__ reads on BOTH self and other, attributes it reads on one of them only), following
                     super().__eq__ / Base.__eq__ delegation (ast of inspect.getsource)
  src_hash_C12       class -> (dynamic?, attributes that the source text of __hash__ reads on self)
  stored_C12         class -> constructor parameter -> name of the attribute it is stored / read back under, where the
                     two differ (c12_classes.ACCESSOR)

Fail-closed: a class of the anchored modules that defines __eq__/__hash__ and is neither registered in
c12_classes.CLASSES nor listed in NOT_ELEMENTS raises; a constructor parameter without a spec entry is caught by the
[covers] side condition in Coq (the build of Props/C12.v fails)."""
import ast
import enum
import importlib
import inspect
import os
import random
import textwrap
import typing

import numpy as np

from vlib.core import COQ, qlist, qstr

from props import c12_classes as K

ANCHORED = ["commonroad.common.util", "commonroad.geometry.shape", "commonroad.scenario.state",
            "commonroad.scenario.trajectory", "commonroad.prediction.prediction", "commonroad.scenario.obstacle",
            "commonroad.common.common_lanelet", "commonroad.scenario.lanelet", "commonroad.scenario.traffic_sign",
            "commonroad.scenario.traffic_light", "commonroad.scenario.intersection", "commonroad.scenario.area",
            "commonroad.planning.goal", "commonroad.planning.planning_problem", "commonroad.scenario.scenario"]
# abstract bases (never instantiated; their __eq__/__hash__ are modelled through the concrete subclasses)
NOT_ELEMENTS = {"Obstacle", "State", "Shape", "Prediction"}


def scan():
    """classes of the anchored modules with an own __eq__ or __hash__, and all concrete State subclasses"""
    found, states = [], []
    from commonroad.scenario.state import State
    for mn in ANCHORED:
        m = importlib.import_module(mn)
        for name, cls in inspect.getmembers(m, inspect.isclass):
            if cls.__module__ != mn:
                continue
            d = cls.__dict__
            own = ("__eq__" in d and inspect.isfunction(d["__eq__"])) or \
                  ("__hash__" in d and inspect.isfunction(d["__hash__"]))
            if issubclass(cls, State) and cls is not State:
                states.append(name)
                own = True
            if own and not issubclass(cls, __import__("enum").Enum):
                found.append(name)
    # subclasses that inherit __eq__ from a registered class (AngleInterval)
    for name, cls in K.CLASSES.items():
        if name not in found:
            found.append(name)
    return found, states


# ------------------------------------------------------------------------------------------------ source text
def defining_class(cls, meth):
    for b in cls.__mro__:
        if meth in b.__dict__ and inspect.isfunction(b.__dict__[meth]):
            return b
    return None


def helper_reads(cls, name, seen):
    """attributes a plain helper method of [cls] reads on its own first parameter (recursively through further
    helpers); properties and inherited special methods are not followed"""
    if name in seen or name.startswith("__"):
        return set(), False
    seen.add(name)
    f = inspect.getattr_static(cls, name, None)
    if isinstance(f, (staticmethod, classmethod)) or not inspect.isfunction(f):
        return set(), False
    try:
        fn = ast.parse(textwrap.dedent(inspect.getsource(f))).body[0]
    except (OSError, TypeError, SyntaxError):
        return set(), False
    if not fn.args.args:
        return set(), False
    me = fn.args.args[0].arg
    out, dyn = set(), False
    for n in ast.walk(fn):
        if isinstance(n, ast.Attribute) and isinstance(n.value, ast.Name) and n.value.id == me:
            out.add(n.attr.lstrip("_"))
        if isinstance(n, ast.Call) and isinstance(n.func, ast.Name) and n.func.id in ("getattr", "hasattr"):
            dyn = True
        if isinstance(n, ast.Call) and isinstance(n.func, ast.Attribute) and isinstance(n.func.value, ast.Name) \
                and n.func.value.id == me:
            h2, d2 = helper_reads(cls, n.func.attr, seen)
            out |= h2
            dyn = dyn or d2
    return out, dyn


def mentions(cls, meth, seen=None):
    """(attributes read on self, attributes read on the second parameter, reads by computed name?) in the source of
    [meth] as [cls] inherits it, following delegation to a base class's [meth]; leading underscores dropped"""
    seen = seen if seen is not None else set()
    b = defining_class(cls, meth)
    if b is None or b in seen:
        return set(), set(), False
    seen.add(b)
    fn = ast.parse(textwrap.dedent(inspect.getsource(b.__dict__[meth]))).body[0]
    args = [a.arg for a in fn.args.args]
    me, other = args[0], (args[1] if len(args) > 1 else None)
    s, o, dyn = set(), set(), False
    for n in ast.walk(fn):
        if isinstance(n, ast.Attribute) and isinstance(n.value, ast.Name):
            if n.value.id == me:
                s.add(n.attr.lstrip("_"))
            elif other is not None and n.value.id == other:
                o.add(n.attr.lstrip("_"))
        if isinstance(n, ast.Call) and isinstance(n.func, ast.Name) and n.func.id in ("getattr", "hasattr"):
            dyn = True
        # a helper method called on self / other: what it reads on ITS self is read on that object
        if isinstance(n, ast.Call) and isinstance(n.func, ast.Attribute) and isinstance(n.func.value, ast.Name) \
                and n.func.value.id in (me, other) and n.func.attr != meth:
            hs, hd = helper_reads(b, n.func.attr, set())
            if n.func.value.id == me:
                s |= hs
            else:
                o |= hs
            dyn = dyn or hd
        if isinstance(n, ast.Call) and isinstance(n.func, ast.Attribute) and n.func.attr == meth:
            for base in b.__mro__[1:]:
                if meth in base.__dict__ and inspect.isfunction(base.__dict__[meth]):
                    s2, o2, d2 = mentions(base, meth, seen)
                    s, o, dyn = s | s2, o | o2, dyn or d2
                    break
    return s, o, dyn


def source_rows():
    eq_rows, hash_rows, stored_rows = [], [], []
    for name in sorted(K.CLASSES):
        cls = K.CLASSES[name]
        s, o, d = mentions(cls, "__eq__")
        eq_rows.append(f"  ({qstr(name)}, ({'true' if d else 'false'}, {qlist([qstr(a) for a in sorted(s & o)])}, "
                       f"{qlist([qstr(a) for a in sorted(s ^ o)])}))")
        hs, _, hd = mentions(cls, "__hash__")
        hash_rows.append(f"  ({qstr(name)}, ({'true' if hd else 'false'}, {qlist([qstr(a) for a in sorted(hs)])}))")
        acc = [(a, v) for (c, a), v in sorted(K.ACCESSOR.items()) if c == name and a != v]
        if acc:
            stored_rows.append(f"  ({qstr(name)}, {qlist([f'({qstr(a)}, {qstr(v)})' for a, v in acc])})")
    return eq_rows, hash_rows, stored_rows


# ------------------------------------------------------------------------------------------------ attribute types
def ty_alts(t):
    """Python type annotation -> list of Coq [alt] terms (None excluded: decided from the default instance)"""
    if t is type(None):
        return []
    if t is bool:
        return ["ABool"]
    if t is int:
        return ["AInt"]
    if t is float:
        return ["ANum"]
    if t is str:
        return ["AStr"]
    if t is np.ndarray:
        return ["AArr"]
    org = typing.get_origin(t)
    args = typing.get_args(t)
    if org is typing.Union:
        out = []
        for a in args:
            for x in ty_alts(a):
                if x not in out:
                    out.append(x)
        return out
    if org in (list, tuple):
        return [f"AList {ty_term(args[0]) if args else 'TY []'}"]
    if org in (set, frozenset):
        return [f"ASet {ty_term(args[0])}"]
    if org is dict:
        return [f"ADict {ty_term(args[0])} {ty_term(args[1])}"]
    if inspect.isclass(t) and issubclass(t, enum.Enum):
        return ["AEnum"]
    if inspect.isclass(t):
        subs = [n for n in sorted(K.CLASSES) if issubclass(K.CLASSES[n], t)]
        if subs:
            return [f"AObj {qstr(n)}" for n in subs]
    raise RuntimeError(f"C12 tables: type annotation {t!r} has no counterpart in the model's type language")


def ty_term(t, default_alt=None):
    alts = ty_alts(t)
    if default_alt is not None and default_alt not in alts and not (default_alt == "AInt" and "ANum" in alts):
        alts = [default_alt] + alts
    return "(TY " + qlist(alts) + ")"


# SignalState(**kwargs) has no annotated constructor: its documented slots
SIGNAL_TYPES = {a: bool for a in ["horn", "indicator_left", "indicator_right", "braking_lights",
                                  "hazard_warning_lights", "flashing_blue_lights"]}
SIGNAL_TYPES["time_step"] = int


def attr_annotations(name, cls):
    """attribute -> annotation of the value read back for it"""
    if name == "SignalState":
        return dict(SIGNAL_TYPES)
    hints = typing.get_type_hints(cls.__init__)
    out = {}
    for a in K.ctor_params(cls) + K.EXTRA_ATTRS.get(name, []):
        acc = K.ACCESSOR.get((name, a))
        if acc is not None or a in K.EXTRA_ATTRS.get(name, []):
            prop = getattr(cls, acc or a)
            t = typing.get_type_hints(prop.fget).get("return")
        else:
            t = hints.get(a)
        if t is None:
            raise RuntimeError(f"C12 tables: {name}.{a} has no type annotation")
        out[a] = t
    return out


LEAF_ALT = {"none": "ANone", "b": "ABool", "i": "AInt", "f": "ANum", "s": "AStr", "e": "AEnum", "a": "AArr"}


def default_alts(name):
    """attribute -> alternative of the value an instance built with every optional argument at its default holds,
    when that is a leaf (None, or what the setter stores instead of None, e.g. GeoTransformation.geo_reference = 0)"""
    if name in ("CustomState", "SignalState"):
        return {}  # unset attributes are absent, not None
    spec = K.minimal_spec(name, random.Random(12))
    obj, err = K.try_build(spec)
    if obj is None:
        raise RuntimeError(f"C12 tables: the default instance of {name} cannot be built: {err}")
    rb = K.readback(obj)
    given = set(spec["kw"])
    return {a: LEAF_ALT[v[0]] for a, v in rb[2] if v[0] in LEAF_ALT and a not in given}


def types_rows():
    from commonroad.scenario import state as st
    rows = []
    state_any = []
    for sn in sorted(K.STATE_NAMES):
        if sn == "CustomState":
            continue
        for t in typing.get_type_hints(K.CLASSES[sn].__init__).values():
            for x in ty_alts(t):
                if x not in state_any:
                    state_any.append(x)
    for name in sorted(K.CLASSES):
        cls = K.CLASSES[name]
        if name == "CustomState":
            rows.append(f"  ({qstr(name)}, ([], Some (TY {qlist(state_any)})))")
            continue
        ann = attr_annotations(name, cls)
        dflt = default_alts(name)
        ent = [f"({qstr(a)}, {ty_term(t, dflt.get(a))})" for a, t in ann.items()]
        rows.append(f"  ({qstr(name)}, ({qlist(ent)}, None))")
    return rows


def tables_text():
    found, states = scan()
    missing = [n for n in found if n not in K.CLASSES and n not in NOT_ELEMENTS]
    if missing:
        raise RuntimeError(f"C12 tables: classes with __eq__/__hash__ that the check does not know: {missing}")
    if sorted(states) != sorted(K.STATE_NAMES):
        raise RuntimeError(f"C12 tables: State subclasses changed: {sorted(set(states) ^ set(K.STATE_NAMES))}")
    rows, opt = [], []
    for name in sorted(K.CLASSES):
        cls = K.CLASSES[name]
        attrs = K.ctor_params(cls) + K.EXTRA_ATTRS.get(name, [])
        rows.append(f"  ({qstr(name)}, {qlist([qstr(a) for a in attrs])})")
        if cls.__name__ not in ("SignalState", "CustomState"):
            sig = inspect.signature(cls.__init__).parameters
            o = [n for n in K.ctor_params(cls) if sig[n].default is None]
        else:
            o = K.ctor_params(cls)
        opt.append(f"  ({qstr(name)}, {qlist([qstr(a) for a in o])})")
    dyn = [n for n in sorted(K.CLASSES)
           if any(p.kind == p.VAR_KEYWORD for p in inspect.signature(K.CLASSES[n].__init__).parameters.values())
           and not K.ctor_params(K.CLASSES[n])]
    return ("(* GENERATED by harness/props/c12_tables.py from the source tree on every run - do not edit *)\n"
            "From Coq Require Import List String.\nFrom CR Require Import Model.EqHash Model.EqHashTypes.\n"
            "Import ListNotations.\nOpen Scope string_scope.\n\n"
            "Definition attrs_C12 : list (string * list string) := [\n" + ";\n".join(rows) + "\n].\n\n"
            "Definition optional_C12 : list (string * list string) := [\n" + ";\n".join(opt) + "\n].\n\n"
            f"Definition state_classes_C12 : list string := {qlist([qstr(s) for s in sorted(states)])}.\n\n"
            f"Definition dynamic_classes_C12 : list string := {qlist([qstr(s) for s in dyn])}.\n\n"
            "Definition types_C12 : ttable := [\n" + ";\n".join(types_rows()) + "\n].\n\n"
            "Definition src_eq_C12 : list (string * (bool * list string * list string)) := [\n" +
            ";\n".join(source_rows()[0]) + "\n].\n\n"
            "Definition src_hash_C12 : list (string * (bool * list string)) := [\n" +
            ";\n".join(source_rows()[1]) + "\n].\n\n"
            "Definition stored_C12 : list (string * list (string * string)) := [\n" +
            ";\n".join(source_rows()[2]) + "\n].\n")


def write_tables(ctx=None):
    text = tables_text()
    path = os.path.join(COQ, "Gen", "Tables_C12.v")
    os.makedirs(os.path.dirname(path), exist_ok=True)
    old = open(path).read() if os.path.exists(path) else None
    if old != text:
        with open(path, "w") as f:
            f.write(text)
        if ctx is not None:
            ctx.log("Gen/Tables_C12.v regenerated (content changed)")
    if ctx is not None:
        ctx.coverage["generated_tables"] = {"file": "coq/Gen/Tables_C12.v", "classes": len(K.CLASSES),
                                            "changed": old != text}
    return path


if __name__ == "__main__":
    print(write_tables())
