"""C04 — obstacle occupancy = shape placed at the state, for every time step.
oracle: (i) dispatch: which region / state every obstacle reports for t0-2 .. t_final+2, from the raw stored data;
        (ii) independent placement from raw parameters (own centroid, math.cos / math.sin / math.atan2);
        (iii) uncertain states: dense sampling of admissible (position, orientation), every placed vertex must lie in
        the returned rectangle; scenario-level queries = map / filter of the per-obstacle answers.
corr:   Model/Occupancy.v evaluated by vm_compute on the same cases (Corr/C04.v)."""
import math
import random
import time

import numpy as np

from vlib import scen
from vlib.core import qb, qlist, qq, qz
from vlib.flow import load_corpus

from props import c05_lib as L

import commonroad
from commonroad.common.util import AngleInterval, Interval
from commonroad.geometry.shape import Circle, Polygon, Rectangle, Shape, ShapeGroup, occupancy_shape_from_state
from commonroad.prediction.prediction import Occupancy, SetBasedPrediction, TrajectoryPrediction
from commonroad.scenario.obstacle import (DynamicObstacle, EnvironmentObstacle, ObstacleRole, ObstacleType,
                                          PhantomObstacle, StaticObstacle)
from commonroad.scenario.scenario import Scenario, ScenarioID
from commonroad.scenario.state import CustomState, InitialState, KSState, PMState, STState
from commonroad.scenario.trajectory import Trajectory

TWO_PI = commonroad.TWO_PI
TOL = 1e-9

RULE = ("cases from one seeded PRNG: (a) single obstacles of every role (static, dynamic with trajectory / set-based / no "
        "prediction, phantom, environment) x shape (rectangle, circle, polygon, shape group, off-centre rectangle / "
        "polygon) x state class (KS, PM, ST, Custom with and without orientation) x exact / uncertain states, queried at "
        "every integer time step from t0-2 to t_final+2, half of them after a history of 1-3 public-API operations "
        "(update_initial_state with / without history bound and update_prediction, initial_state / prediction / "
        "obstacle_shape setters, translate_rotate), the initial occupancy compared with the model; (b) scenarios with mixed roles queried with "
        "occupancies_at_time_step / obstacle_states_at_time_step / obstacles_by_role_and_type / "
        "obstacles_by_position_intervals for t = 0..t_final+1, every role / type filter; (c) rotate_translate_local of "
        "every shape kind at exact poses, Rectangle.vertices, and the occupancy of the same shape at an exact state of "
        "class KS / PM / Custom / custom point-mass (no orientation attribute) through TrajectoryPrediction; (d) "
        "occupancy_shape_from_state for uncertain states (region x interval x shape kind, symmetric and non-symmetric) "
        "and the bounds / centre of rotation the formula reads off every primitive shape. distinct = distinct case dicts; non-trivial = the "
        "case has a prediction, an uncertain state, a non-zero orientation or more than one obstacle")
ASSUME = ["trajectories have consecutive time steps (DESIGN 2.7); per-obstacle queries for Python ints, scenario-level "
          "queries for t >= 0 (t = -1 only to observe the assertion)",
          "float arithmetic rounded (model exact): placement parameters compared with tolerance 1e-9*(max(1,|x|)+scale), "
          "orientations modulo 2pi; which stored object a query returns is compared exactly",
          "arctan / cos / sin / sqrt, shapely bounds and centroids are oracle inputs of the enclosure model (measured "
          "through the public API on every case); the enclosure itself is judged by sampling 200+ admissible "
          "(position, orientation) pairs per case with vertex containment (tolerance 1e-9*scale)",
          "shape groups as position region, numpy integer time steps, PhantomObstacle.state_at_time (a static method "
          "without parameters) are outside the statement"]

OTYPES = list(ObstacleType)
ROLES = ["static", "dynamic", "dynamic_set", "dynamic_none", "env", "phantom"]


# ------------------------------------------------------------------------------------ generators
def g_shape(rng, kind):
    if kind == "rect":
        return Rectangle(scen.rnd(rng, 1, 6), scen.rnd(rng, 0.5, 3))
    if kind == "circ":
        return Circle(scen.rnd(rng, 0.3, 3))
    if kind == "offrect":
        return Rectangle(scen.rnd(rng, 1, 6), scen.rnd(rng, 0.5, 3), np.array([scen.rnd(rng, -2, 2), scen.rnd(rng, -2, 2)]),
                         rng.choice([0.0, 0.0, scen.rnd(rng, -3, 3)]))
    if kind == "offcirc":
        return Circle(scen.rnd(rng, 0.3, 3), np.array([scen.rnd(rng, -2, 2), scen.rnd(rng, -2, 2)]))
    if kind == "poly":  # centrally symmetric about the origin: a rotated box or a hexagon
        l, w = scen.rnd(rng, 1, 5), scen.rnd(rng, 0.5, 3)
        if rng.random() < 0.5:
            return Polygon(np.array([[-l / 2, -w / 2], [l / 2, -w / 2], [l / 2, w / 2], [-l / 2, w / 2]]))
        return Polygon(np.array([[l, 0], [l / 2, w], [-l / 2, w], [-l, 0], [-l / 2, -w], [l / 2, -w]]))
    if kind == "offpoly":  # not centrally symmetric: corner at the origin, triangle, trapezoid
        v = rng.random()
        if v < 0.35:
            l, w = scen.rnd(rng, 1, 5), scen.rnd(rng, 0.5, 3)
            return Polygon(np.array([[0.0, 0.0], [l, 0.0], [l, w], [0.0, w]]))
        if v < 0.7:
            return Polygon(np.array([[0.0, 0.0], [scen.rnd(rng, 2, 5), 0.0], [scen.rnd(rng, 0, 2), scen.rnd(rng, 1, 4)]]))
        p = scen.rand_shape(rng, ("poly",), centred=False)
        while not p.shapely_object.is_valid:
            p = scen.rand_shape(rng, ("poly",), centred=False)
        return p
    if kind == "group":
        return ShapeGroup([g_shape(rng, rng.choice(["rect", "circ", "offrect", "offpoly", "offcirc"]))
                           for _ in range(rng.randint(1, 3))])
    raise ValueError(kind)


def g_region(rng, kind, at):
    """uncertain position region around the point [at]"""
    at = np.array(at, dtype=float)
    if kind == "rect":
        return Rectangle(scen.rnd(rng, 0.2, 3), scen.rnd(rng, 0.2, 2), at, rng.choice([0.0, scen.rnd(rng, -3, 3)]))
    if kind == "circ":
        return Circle(scen.rnd(rng, 0.1, 2), at)
    if kind == "poly":  # symmetric about its centroid
        l, w = scen.rnd(rng, 0.2, 3), scen.rnd(rng, 0.2, 2)
        return Polygon(np.array([[-l, -w], [l, -w], [l, w], [-l, w]]) + at)
    if kind == "tri":  # not symmetric about its centroid
        return Polygon(np.array([[0.0, 0.0], [scen.rnd(rng, 1, 4), 0.0], [scen.rnd(rng, 0, 1), scen.rnd(rng, 1, 3)]]) + at)
    raise ValueError(kind)


def g_orientation(rng, unc):
    o = rng.choice([0.0, scen.rnd(rng, -3.1, 3.1), scen.rnd(rng, -3.1, 3.1), math.pi / 2, -math.pi, 6.0, -6.2])
    if unc:
        d = rng.choice([0.0, 0.05, 0.1, 0.2, 0.5, 1.0, 1.5, 2.5])
        lo, hi = o - d, o + d
        if lo < -TWO_PI or hi > TWO_PI:
            lo, hi = -d, d
        return AngleInterval(lo, hi)
    return o


def g_state(rng, cls, t, unc_pos=None, unc_ori=False, at=None):
    at = [scen.rnd(rng, -20, 40), scen.rnd(rng, -10, 10)] if at is None else at
    pos = g_region(rng, unc_pos, at) if unc_pos else np.array(at, dtype=float)
    ori = g_orientation(rng, unc_ori)
    v = scen.rnd(rng, 0, 20)
    if cls is PMState:
        return PMState(time_step=t, position=pos, velocity=rng.choice([v, -v, 0.0]), velocity_y=scen.rnd(rng, -3, 3))
    if cls == "custom_pm":  # no orientation attribute: the heading comes from atan2(velocity_y, velocity)
        return CustomState(time_step=t, position=pos, velocity=v, velocity_y=scen.rnd(rng, -3, 3))
    if cls is KSState:
        return KSState(time_step=t, position=pos, orientation=ori, velocity=v, steering_angle=0.1)
    if cls is STState:
        return STState(time_step=t, position=pos, orientation=ori, velocity=v, steering_angle=0.1, yaw_rate=0.0,
                       slip_angle=0.0)
    if cls is InitialState:
        return InitialState(time_step=t, position=pos, orientation=ori, velocity=v, acceleration=0.0, yaw_rate=0.0,
                            slip_angle=0.0)
    return CustomState(time_step=t, position=pos, orientation=ori, velocity=v)


STATE_CLASSES = {"KS": KSState, "PM": PMState, "ST": STState, "Custom": CustomState, "custom_pm": "custom_pm"}


def g_set_pred(rng, t0, opts):
    """set-based prediction for an obstacle whose initial time step is t0"""
    occs = []
    t = t0 + 1 + opts.get("gap", 0)
    for i in range(opts.get("n", 3)):
        sh = g_shape(rng, rng.choice(["offrect", "offcirc", "offpoly", "group"]))
        if opts.get("itv") and rng.random() < 0.6:
            ln = rng.randint(0, 2)
            occs.append(Occupancy(Interval(t, t + ln), sh))
            t += ln + 1
        else:
            occs.append(Occupancy(t, sh))
            t += 1 + (1 if opts.get("holes") and rng.random() < 0.3 else 0)
    if opts.get("unsorted") and len(occs) > 1:
        # nothing requires the occupancies to be stored chronologically (the lookup is by time step)
        k = rng.randrange(1, len(occs))
        occs = occs[k:] + occs[:k] if rng.random() < 0.5 else occs[::-1]
    return SetBasedPrediction(t0 + 1, occs)


def g_traj_pred(rng, shape, t0, opts):
    """trajectory prediction (consecutive time steps) for an obstacle whose initial time step is t0"""
    cls = STATE_CLASSES[opts.get("cls", "KS")]
    unc_pos, unc_ori = opts.get("unc_pos"), opts.get("unc_ori", False)
    ts = t0 + 1 + opts.get("gap", 0)
    x, y = scen.rnd(rng, -5, 10), scen.rnd(rng, 0, 6)
    states = [g_state(rng, cls, ts + i, unc_pos, unc_ori, at=[round(x + 1.5 * i, 3), y]) for i in range(opts.get("n", 3))]
    return TrajectoryPrediction(Trajectory(ts, states), shape)


def g_init(rng, t0, opts):
    unc = opts.get("unc_init", True)
    return g_state(rng, InitialState, t0, opts.get("unc_pos") if unc else None, opts.get("unc_ori", False) if unc else False)


def g_obstacle(rng, oid, role, opts):
    shape = g_shape(rng, opts.get("shape", "rect"))
    t0 = opts.get("t0", 0)
    otype = rng.choice(OTYPES)
    if role == "env":
        return EnvironmentObstacle(oid, otype, g_shape(rng, rng.choice(["offrect", "offcirc", "offpoly", "group"])))
    if role in ("phantom", "dynamic_set"):
        pred = g_set_pred(rng, t0, opts)
        if role == "phantom":
            return PhantomObstacle(oid, pred if not opts.get("nopred") else None)
    init = g_init(rng, t0, opts)
    if role == "static":
        return StaticObstacle(oid, otype, shape, init)
    if role == "dynamic_none":
        return DynamicObstacle(oid, otype, shape, init, None)
    if role == "dynamic_set":
        return DynamicObstacle(oid, otype, shape, init, pred)
    return DynamicObstacle(oid, otype, shape, init, g_traj_pred(rng, shape, t0, opts))


# ---- histories: what happens to an obstacle through its public API between construction and the query
HIST_OPS = {"dynamic": ["update_initial_state", "update_initial_state", "update_initial_state+update_prediction",
                        "update_initial_state+update_prediction", "set_initial_state", "set_prediction",
                        "update_prediction", "set_shape", "translate_rotate", "edit_initial_state"],
            "static": ["set_initial_state", "set_initial_state", "set_shape", "translate_rotate", "edit_initial_state"],
            "phantom": ["translate_rotate", "set_prediction"],
            "env": ["translate_rotate", "set_shape"]}


def g_hist(rng, role):
    """0-3 operations (by name, each with its own sub-seed); half of the obstacles are queried as constructed"""
    if rng.random() < 0.5:
        return []
    r = "dynamic" if role.startswith("dynamic") else role
    return [{"op": rng.choice(HIST_OPS[r]), "sub": rng.randrange(1 << 30)} for _ in range(rng.choice([1, 1, 2, 3]))]


def touch(ob, rng):
    """read-only use of the obstacle before it is changed (whatever such reads memoise must not survive the change)"""
    t0 = ob.initial_state.time_step if hasattr(ob, "initial_state") else 0
    for t in range(t0 - 1, t0 + 8):
        try:
            ob.occupancy_at_time(t)
            if hasattr(ob, "state_at_time"):
                ob.state_at_time(t)
        except Exception:  # noqa - judged by the queries of the case itself
            pass
    p = getattr(ob, "prediction", None)
    if p is not None:
        try:
            list(p.occupancy_set)
            p.occupancy_at_time_step(t0 + rng.randint(0, 4))
            if hasattr(p, "trajectory"):
                p.trajectory.state_at_time_step(t0 + rng.randint(0, 4))
        except Exception:  # noqa
            pass


def apply_history(ob, hist, opts):
    for h in hist:
        rng = random.Random(h["sub"])
        if random.Random(h["sub"] ^ 0x5A5A5A).random() < 0.6:
            touch(ob, random.Random(h["sub"] ^ 0x3C3C3C))
        op, role = h["op"], role_of(ob)
        if op.startswith("update_initial_state"):
            # the obstacle was observed again: a new initial state (usually one step later, elsewhere than predicted)
            t = ob.initial_state.time_step + rng.choice([1, 1, 1, 2, 0])
            kw = {"max_history_length": rng.choice([1, 2])} if rng.random() < 0.3 else {}
            ob.update_initial_state(g_init(rng, t, opts), **kw)
            if op.endswith("update_prediction"):
                ob.update_prediction(g_traj_pred(rng, ob.obstacle_shape, t, opts) if rng.random() < 0.7
                                     else g_set_pred(rng, t, opts))
        elif op == "set_initial_state":
            t = ob.initial_state.time_step + rng.choice([0, 0, 1])
            ob.initial_state = g_init(rng, t, opts)
        elif op == "edit_initial_state":
            # the state the obstacle holds is taken out, edited, and handed back through the setter: the SAME object
            st = ob.initial_state
            fresh = g_init(rng, st.time_step, opts)
            st.position = fresh.position
            if not L.derived_orientation(st) and hasattr(fresh, "orientation"):
                st.orientation = fresh.orientation
            ob.initial_state = st
        elif op in ("set_prediction", "update_prediction"):
            t = ob.initial_state.time_step if role == "dynamic" else 0
            k = rng.random()
            if role == "phantom":
                pred = g_set_pred(rng, t, opts) if k < 0.8 else None
            else:
                pred = g_traj_pred(rng, ob.obstacle_shape, t, opts) if k < 0.5 else g_set_pred(rng, t, opts) if k < 0.8 else None
            if op == "update_prediction" and pred is not None:
                ob.update_prediction(pred)
            else:
                ob.prediction = pred
        elif op == "set_shape":
            # documented as immutable: the assignment warns and changes nothing
            ob.obstacle_shape = g_shape(rng, rng.choice(["rect", "circ", "offpoly"]))
        elif op == "translate_rotate":
            a = rng.choice([0.0, 0.03, -0.03, math.pi / 2, -math.pi, scen.rnd(rng, -6.2, 6.2), scen.rnd(rng, -1, 1)])
            ob.translate_rotate(np.array([scen.rnd(rng, -30, 30), scen.rnd(rng, -30, 30)]), a)
        else:
            raise ValueError(op)


def obs_opts(rng):
    unc = rng.random() < 0.35
    o = {"shape": rng.choice(["rect", "rect", "circ", "poly", "offrect", "offpoly", "offcirc", "group"]),
         "t0": rng.choice([0, 0, 2, 5]), "n": rng.randint(1, 5), "gap": rng.choice([0, 0, 0, 2]),
         "cls": rng.choice(["KS", "PM", "ST", "Custom", "custom_pm"]), "itv": rng.random() < 0.5,
         "holes": rng.random() < 0.3, "nopred": rng.random() < 0.1, "unsorted": rng.random() < 0.3}
    if unc:
        o["unc_pos"] = rng.choice([None, "rect", "circ", "poly", "tri"])
        o["unc_ori"] = rng.random() < 0.6 or o["unc_pos"] is None
        o["unc_init"] = rng.random() < 0.7
        if o["cls"] in ("PM", "custom_pm"):
            o["unc_ori"] = False
            o["unc_pos"] = o["unc_pos"] or "rect"
    return o


def gen(rng, n):
    cases = []
    for i in range(n):
        k = rng.random()
        c = {"sub": rng.randrange(1 << 30)}
        if k < 0.35:
            c.update(kind="obs", role=rng.choice(ROLES + ["dynamic", "dynamic"]), opts=obs_opts(rng))
            c["hist"] = g_hist(rng, {"dynamic_set": "dynamic", "dynamic_none": "dynamic"}.get(c["role"], c["role"]))
        elif k < 0.5:
            m = rng.randint(1, 6)
            c.update(kind="scn", roles=[rng.choice(ROLES) for _ in range(m)], opts=[obs_opts(rng) for _ in range(m)])
            # histories of the obstacles after they were added to the scenario
            c["hists"] = [g_hist(rng, {"dynamic_set": "dynamic", "dynamic_none": "dynamic"}.get(r, r))[:2]
                          if rng.random() < 0.6 else [] for r in c["roles"]]
        elif k < 0.68:
            c.update(kind="place", shape=rng.choice(["rect", "circ", "poly", "offrect", "offpoly", "offcirc", "group"]))
        else:
            c.update(kind="enc", shape=rng.choice(["rect", "rect", "circ", "poly", "offrect", "offpoly", "offcirc", "group"]),
                     unc_pos=rng.choice([None, "rect", "circ", "poly", "tri"]), unc_ori=rng.random() < 0.6)
            if c["unc_pos"] is None:
                c["unc_ori"] = True
        cases.append(c)
    return cases


def nontrivial(c):
    if c["kind"] == "obs":
        return (c["role"] not in ("static", "env", "dynamic_none") or bool(c["opts"].get("unc_pos") or c["opts"].get("unc_ori"))
                or bool(c.get("hist")))
    if c["kind"] == "scn":
        return len(c["roles"]) > 1
    return True


def kind(c):
    if c["kind"] == "obs":
        u = "uncertain" if (c["opts"].get("unc_pos") or c["opts"].get("unc_ori")) else "exact"
        return f"obs|{c['role']}|{c['opts']['shape']}|{u}|{'history' if c.get('hist') else 'as constructed'}"
    if c["kind"] == "enc":
        return f"enc|{c['shape']}|pos={c['unc_pos']}|ori={'itv' if c['unc_ori'] else 'exact'}"
    if c["kind"] == "place":
        return f"place|{c['shape']}"
    return "scn|" + str(len(c["roles"]))


# ------------------------------------------------------------------------------------ independent geometry
def centroid(vs):
    a2 = cx = cy = 0.0
    for p, q in zip(vs[:-1], vs[1:]):
        k = p[0] * q[1] - p[1] * q[0]
        a2 += k
        cx += (p[0] + q[0]) * k
        cy += (p[1] + q[1]) * k
    return cx / (3 * a2), cy / (3 * a2)


def place_points(shape, pos, th):
    """the points of [shape] (vertices; for a circle: centre and radius) placed at (pos, th): rotated about the
    shape's own reference centre by th, translated by pos.  Returns list of ('pts', [...]) / ('circ', c, r)"""
    c, s = math.cos(th), math.sin(th)
    if isinstance(shape, Rectangle):
        l, w, o = shape.length, shape.width, shape.orientation
        co, so = math.cos(o + th), math.sin(o + th)
        ctr = (shape.center[0] + pos[0], shape.center[1] + pos[1])
        pts = [(ctr[0] + co * x - so * y, ctr[1] + so * x + co * y)
               for x, y in ((-l / 2, -w / 2), (-l / 2, w / 2), (l / 2, w / 2), (l / 2, -w / 2))]
        return [("pts", pts)]
    if isinstance(shape, Circle):
        return [("circ", (shape.center[0] + pos[0], shape.center[1] + pos[1]), shape.radius)]
    if isinstance(shape, Polygon):
        vs = shape.vertices.tolist()
        g = centroid(vs)
        return [("pts", [(g[0] + c * (x - g[0]) - s * (y - g[1]) + pos[0], g[1] + s * (x - g[0]) + c * (y - g[1]) + pos[1])
                         for x, y in vs[:-1]])]
    out = []
    for m in shape.shapes:
        out += place_points(m, pos, th)
    return out


def shape_points(shape):
    """the same description for a shape as it is"""
    if isinstance(shape, Rectangle):
        return [("pts", [tuple(p) for p in shape.vertices[:-1].tolist()])]
    if isinstance(shape, Circle):
        return [("circ", (shape.center[0], shape.center[1]), shape.radius)]
    if isinstance(shape, Polygon):
        return [("pts", [tuple(p) for p in shape.vertices[:-1].tolist()])]
    out = []
    for m in shape.shapes:
        out += shape_points(m)
    return out


def same_points(exp, got, scale):
    """compare two descriptions; polygons / rectangles as vertex cycles"""
    if len(exp) != len(got):
        return "number of member shapes differs"
    tol = TOL * max(1.0, scale)
    for e, g in zip(exp, got):
        if e[0] != g[0]:
            return f"kind {g[0]} instead of {e[0]}"
        if e[0] == "circ":
            if max(abs(e[1][0] - g[1][0]), abs(e[1][1] - g[1][1]), abs(e[2] - g[2])) > tol:
                def fmt(d):
                    return f"centre ({float(d[1][0]):.6g}, {float(d[1][1]):.6g}) radius {float(d[2]):.6g}"
                return f"circle {fmt(g)} instead of {fmt(e)}"
            continue
        a, b = e[1], g[1]
        n = len(a)
        if n != len(b):
            return "vertex count differs"
        ok = False
        for d in (1, -1):
            for k in range(n):
                if all(max(abs(a[(k + d * i) % n][0] - b[i][0]), abs(a[(k + d * i) % n][1] - b[i][1])) <= tol
                       for i in range(n)):
                    ok = True
                    break
            if ok:
                break
        if not ok:
            return f"vertices {[tuple(round(float(x), 6) for x in p) for p in b]} instead of {[tuple(round(float(x), 6) for x in p) for p in a]}"
    return None


def heading_of(state):
    """the orientation the statement prescribes: the stored one; atan2(vy, vx) for point-mass states (PMState, and
    custom states that carry a velocity_y and were built without an orientation)"""
    if L.derived_orientation(state) or not hasattr(state, "orientation"):
        return math.atan2(state.velocity_y, state.velocity)
    return state.orientation


def region_samples(rng, pos, n=12):
    if not isinstance(pos, Shape):
        return [(float(pos[0]), float(pos[1]))]
    if isinstance(pos, Circle):
        c, r = pos.center, pos.radius
        out = [(c[0], c[1])] + [(c[0] + r * math.cos(a), c[1] + r * math.sin(a)) for a in np.linspace(0, TWO_PI, 17)[:-1]]
        out += [(c[0] + r * u * math.cos(a), c[1] + r * u * math.sin(a))
                for u, a in ((rng.random(), rng.uniform(0, TWO_PI)) for _ in range(n))]
        return out
    vs = pos.vertices[:-1].tolist()
    out = [tuple(p) for p in vs]
    for p, q in zip(vs, vs[1:] + vs[:1]):
        out.append(((p[0] + q[0]) / 2, (p[1] + q[1]) / 2))
    g = pos.center
    out.append((g[0], g[1]))
    for _ in range(n):  # points on segments from the centroid to boundary points (inside for star-shaped regions)
        p, q = rng.choice(list(zip(vs, vs[1:] + vs[:1])))
        u, v = rng.random(), rng.random()
        b = (p[0] + u * (q[0] - p[0]), p[1] + u * (q[1] - p[1]))
        cand = (g[0] + v * (b[0] - g[0]), g[1] + v * (b[1] - g[1]))
        if pos.contains_point(np.array(cand)):
            out.append(cand)
    return out


def angle_samples(rng, ori, n=10):
    if not isinstance(ori, AngleInterval):
        return [float(ori)]
    a, b = ori.start, ori.end
    return [a, b, (a + b) / 2] + [a + (b - a) * k / 8 for k in range(1, 8)] + [rng.uniform(a, b) for _ in range(n)]


def check_enclosure(rng, shape, state, rect):
    """every placed vertex for sampled admissible (p, th) lies in [rect]; returns None | description"""
    if not isinstance(rect, Rectangle):
        return f"occupancy for an uncertain state is a {type(rect).__name__}"
    cr, sr = math.cos(rect.orientation), math.sin(rect.orientation)
    scale = max(1.0, abs(rect.center[0]), abs(rect.center[1]), rect.length, rect.width)
    tol = TOL * scale
    worst = None
    for p in region_samples(rng, state.position):
        for th in angle_samples(rng, heading_of(state)):
            for d in place_points(shape, p, th):
                pts, r = (d[1], 0.0) if d[0] == "pts" else ([d[1]], d[2])
                for x in pts:
                    dx, dy = x[0] - rect.center[0], x[1] - rect.center[1]
                    u, v = cr * dx + sr * dy, -sr * dx + cr * dy
                    ex = max(abs(u) + r - rect.length / 2, abs(v) + r - rect.width / 2)
                    if ex > tol and (worst is None or ex > worst[0]):
                        worst = (ex, p, th, x)
    if worst:
        return (f"placed point {tuple(round(float(z), 6) for z in worst[3])} (position {tuple(round(float(z), 6) for z in worst[1])}, "
                f"orientation {worst[2]:.6f}) lies {worst[0]:.6g} outside the returned rectangle "
                f"(l={rect.length:.6g}, w={rect.width:.6g}, c={rect.center.tolist()}, o={rect.orientation:.6g})")
    return None


def shape_kind(sh):
    """input-shape label used in signatures: where the shape sits relative to its centre of rotation / the origin"""
    if isinstance(sh, ShapeGroup):
        return "group"
    if isinstance(sh, Circle):
        return "circle" + ("" if not np.any(sh.center) else "(off-centre)")
    if isinstance(sh, Rectangle):
        return "rectangle" + ("" if not np.any(sh.center) else "(off-centre)")
    b = sh.shapely_object.bounds
    g = sh.center
    sym = abs((b[0] + b[2]) / 2 - g[0]) < 1e-9 and abs((b[1] + b[3]) / 2 - g[1]) < 1e-9
    at0 = abs(g[0]) < 1e-9 and abs(g[1]) < 1e-9
    return "polygon(" + ("bbox centred on centroid" if sym else "bbox not centred on centroid") + \
        (", centroid at origin)" if at0 else ", centroid off origin)")


def region_kind(p):
    if isinstance(p, ShapeGroup):
        return "group"
    if isinstance(p, Circle):
        return "circle"
    if isinstance(p, Rectangle):
        return "rectangle"
    b = p.shapely_object.bounds
    g = p.center
    sym = abs((b[0] + b[2]) / 2 - g[0]) < 1e-9 and abs((b[1] + b[3]) / 2 - g[1]) < 1e-9
    return "polygon(" + ("symmetric" if sym else "not symmetric") + " about its centroid)"


def unc_kind(state):
    p = state.position
    pk = "exact" if not isinstance(p, Shape) else "region:" + region_kind(p)
    return f"pos={pk}:ori={'interval' if isinstance(getattr(state, 'orientation', None), AngleInterval) else 'exact'}"


def judge_region(rng, shape, state, got, where):
    """the occupancy region [got] for [shape] at [state] -> None | (signature, what)"""
    if state.is_uncertain_position or state.is_uncertain_orientation:
        if isinstance(state.position, ShapeGroup):
            return None  # outside the statement
        if isinstance(shape, ShapeGroup):  # member-wise, as for exact states
            if not isinstance(got, ShapeGroup) or len(got.shapes) != len(shape.shapes):
                return (f"enclosure:group:{unc_kind(state)}", f"{where}: occupancy of a shape group is {type(got).__name__}")
            for m, g in zip(shape.shapes, got.shapes):
                r = judge_region(rng, m, state, g, where + " (group member)")
                if r:
                    return r
            return None
        r = check_enclosure(rng, shape, state, got)
        if r:
            return (f"enclosure:{shape_kind(shape)}:{unc_kind(state)}", f"{where}: uncertain state, shape {shape_kind(shape)}: {r}")
        return None
    th = heading_of(state)
    exp = place_points(shape, state.position, th)
    scale = max(abs(float(state.position[0])), abs(float(state.position[1])), 1.0)
    r = same_points(exp, shape_points(got), scale)
    if r:
        return (f"placement:{shape_kind(shape)}:{type(state).__name__}",
                f"{where}: {shape_kind(shape)} at position {state.position.tolist()} orientation {th!r}: {r}")
    return None


# ------------------------------------------------------------------------------------ building cases
def build(case):
    rng = random.Random(case["sub"])
    k = case["kind"]
    if k == "obs":
        ob = g_obstacle(rng, 7, case["role"], case["opts"])
        apply_history(ob, case.get("hist", []), case["opts"])
        return ob
    if k == "scn":
        sc = Scenario(0.1, ScenarioID(False, "ZAM", "Test", 1, 1, "T", 1))
        obs = [g_obstacle(rng, 10 + i, r, o) for i, (r, o) in enumerate(zip(case["roles"], case["opts"]))]
        for ob in obs:
            sc.add_objects(ob)
        for ob, o, h in zip(obs, case["opts"], case.get("hists", [[]] * len(obs))):
            apply_history(ob, h, o)
        return sc
    if k == "place":
        sh = g_shape(rng, case["shape"])
        pos = np.array([scen.rnd(rng, -50, 50), scen.rnd(rng, -50, 50)])
        th = rng.choice([0.0, scen.rnd(rng, -6.2, 6.2), scen.rnd(rng, -3, 3), math.pi / 2, TWO_PI, -TWO_PI, 0.03, 1, -2])
        return sh, pos, th
    if k == "enc":
        sh = g_shape(rng, case["shape"])
        st = g_state(rng, rng.choice([KSState, InitialState, CustomState]), 0, case["unc_pos"], case["unc_ori"])
        return sh, st
    raise ValueError(k)


def time_range(ob):
    """(initial time step, last time step anything is stored for)"""
    t0 = ob.initial_state.time_step if hasattr(ob, "initial_state") else 0
    tf = t0
    p = getattr(ob, "prediction", None)
    if p is not None:
        f = p.final_time_step
        tf = max(tf, int(f.end) if isinstance(f, Interval) else int(f))
        if isinstance(p, SetBasedPrediction):   # stored in any order: the last element need not be the latest
            for oc in p.occupancy_set:
                f = oc.time_step
                tf = max(tf, int(f.end) if isinstance(f, Interval) else int(f))
    return t0, tf


def first_step(ob):
    """the first time step anything is stored for (after a history the prediction may begin before the initial state)"""
    t0 = ob.initial_state.time_step if hasattr(ob, "initial_state") else 0
    p = getattr(ob, "prediction", None)
    if p is not None:
        t0 = min(t0, int(p.initial_time_step))
    return t0


def role_of(ob):
    return {StaticObstacle: "static", DynamicObstacle: "dynamic", PhantomObstacle: "phantom",
            EnvironmentObstacle: "env"}[type(ob)]


class Numbering:
    """uids of the stored states / regions of one obstacle, and the implementation's objects behind them"""

    def __init__(self, ob, base=0):
        self.ob = ob
        self.base = base
        self.states = {}   # id(state object) -> uid
        self.occs = {}     # id(occupancy object) -> uid  (stored occupancies)
        self.init_shape = None
        r = role_of(ob)
        if r in ("static", "dynamic"):
            self.states[id(ob.initial_state)] = base
            self.init_shape = ob.occupancy_at_time(ob.initial_state.time_step).shape
        p = getattr(ob, "prediction", None)
        if isinstance(p, TrajectoryPrediction):
            for i, s in enumerate(p.trajectory.state_list):
                self.states[id(s)] = base + 1 + i
            for i, o in enumerate(p.occupancy_set):
                self.occs[id(o)] = base + 1 + i
        elif isinstance(p, SetBasedPrediction):
            for i, o in enumerate(p.occupancy_set):
                self.occs[id(o)] = base + 100 + i

    def uid_of_occ(self, occ):
        if id(occ) in self.occs:
            return self.occs[id(occ)]
        if self.init_shape is not None and occ.shape is self.init_shape:
            return self.base
        if role_of(self.ob) == "env" and occ.shape is self.ob.obstacle_shape:
            return self.base + 50
        return -1

    def uid_of_state(self, st):
        return self.states.get(id(st), -1)


def centre_term(sh):
    if sh is None or not hasattr(sh, "center"):
        return "None"
    c = sh.center
    return f"(Some {L.cpt(c)})"


def c_st(t, uid, occ_shape=None, pos=None):
    pc = "None"
    if pos is not None:
        pc = centre_term(pos) if isinstance(pos, Shape) else f"(Some {L.cpt(pos)})"
    return f"(Build_st {qz(t)} {qz(uid)} {centre_term(occ_shape)} {pc})"


def c_key(ts):
    if isinstance(ts, Interval):
        return f"(TItv {qz(int(ts.start))} {qz(int(ts.end))})"
    return f"(TStep {qz(ts)})"


def c_obst(ob, num, with_centres=False):
    r = role_of(ob)
    oid = qz(ob.obstacle_id)
    ty = qz(OTYPES.index(ob.obstacle_type)) if hasattr(ob, "obstacle_type") else "0%Z"
    if r == "env":
        return f"(Env {oid} {ty} ({qz(num.base + 50)}, {centre_term(ob.obstacle_shape) if with_centres else 'None'}))"

    def occs_term(pred):
        return qlist([f"(Build_occ {c_key(o.time_step)} ({qz(num.occs[id(o)])}, "
                      f"{centre_term(o.shape) if with_centres else 'None'}))" for o in pred.occupancy_set])

    if r == "phantom":
        return f"(Phantom {oid} {'None' if ob.prediction is None else '(Some ' + occs_term(ob.prediction) + ')'})"
    ist = ob.initial_state
    init = c_st(ist.time_step, num.base, num.init_shape if with_centres else None, ist.position if with_centres else None)
    if r == "static":
        return f"(Static {oid} {ty} {init})"
    p = ob.prediction
    if p is None:
        pt = "None"
    elif isinstance(p, TrajectoryPrediction):
        sts = qlist([c_st(s.time_step, num.base + 1 + i, p.occupancy_set[i].shape if with_centres else None)
                     for i, s in enumerate(p.trajectory.state_list)])
        pt = f"(Some (PrTraj (Build_traj {qz(p.trajectory.initial_time_step)} {sts})))"
    else:
        pt = f"(Some (PrSet {occs_term(p)}))"
    return f"(Dynamic {oid} {ty} {init} {pt})"


ROLE_TERM = {"static": "RStatic", "dynamic": "RDynamic", "env": "REnvironment", "phantom": "RPhantom"}
ROLE_ENUM = {"static": ObstacleRole.STATIC, "dynamic": ObstacleRole.DYNAMIC, "env": ObstacleRole.ENVIRONMENT,
             "phantom": ObstacleRole.Phantom}


# ------------------------------------------------------------------------------------ evaluation of one case
class Result:
    def __init__(self):
        self.fail = None      # (signature, what)
        self.terms = []       # Coq case terms

    def bad(self, sig, what):
        if self.fail is None:
            self.fail = (sig, what)


def eval_obs(case, res):
    rng = random.Random(case["sub"] ^ 0x5A5A)
    opts = case["opts"]
    unc = bool(opts.get("unc_pos") or opts.get("unc_ori"))
    try:
        ob = build(case)
        num = Numbering(ob)
    except ValueError as e:  # occupancy_shape_from_state: shape group with an uncertain state
        res.bad(f"occupancy:raises ValueError:shape={opts['shape']}:uncertain={unc}",
                f"obstacle role={case['role']} shape={opts['shape']} uncertain={unc}: computing the occupancy raises "
                f"ValueError {e}")
        return
    role = role_of(ob)
    t0, tf = time_range(ob)
    term = c_obst(ob, num)
    pred = getattr(ob, "prediction", None)
    if role in ("static", "dynamic"):
        res.terms.extend(initial_occupancy_terms(ob))
    for t in range(first_step(ob) - 2, tf + 3):
        try:  # the statement gives an answer (a value or None) for every integer t: an exception is a violation
            occ = ob.occupancy_at_time(t)
            st = ob.state_at_time(t) if role in ("static", "dynamic") else None
        except Exception as e:  # noqa
            res.bad(f"dispatch:{role}:{type(pred).__name__}:raises {type(e).__name__}",
                    f"{role} obstacle (sub-seed {case['sub']}) t={t} (t0={t0}, final={tf}): occupancy_at_time / state_at_time "
                    f"raises {type(e).__name__}: {e}")
            continue
        # ---- oracle (i): which region / state, from the raw stored data
        exp_state, exp_shape_src = None, None   # exp_shape_src: ('state', shape, state) | ('stored', shape) | None
        if role == "static":
            exp_state, exp_shape_src = ob.initial_state, ("state", ob.obstacle_shape, ob.initial_state)
        elif role == "env":
            exp_shape_src = ("stored", ob.obstacle_shape)
        elif role == "dynamic" and t == t0:
            exp_state, exp_shape_src = ob.initial_state, ("state", ob.obstacle_shape, ob.initial_state)
        elif (role == "phantom" or t > t0) and pred is not None:
            if isinstance(pred, TrajectoryPrediction):
                hit = [s for s in pred.trajectory.state_list if s.time_step == t]
                if hit:
                    exp_state, exp_shape_src = hit[0], ("state", pred.shape, hit[0])
            else:
                for o in pred.occupancy_set:
                    k = o.time_step
                    if (isinstance(k, Interval) and k.start <= t <= k.end) or (not isinstance(k, Interval) and k == t):
                        exp_shape_src = ("stored", o.shape)
                        break
        where = f"{role} obstacle (sub-seed {case['sub']}) t={t} (t0={t0}, final={tf})"
        if (occ is None) != (exp_shape_src is None):
            res.bad(f"dispatch:{role}:{type(pred).__name__}:occupancy {'missing' if occ is None else 'unexpected'}",
                    f"{where}: occupancy_at_time is {'None' if occ is None else 'given'} but the stored data "
                    f"{'has' if exp_shape_src else 'has no'} region for this time step")
        elif occ is not None:
            if exp_shape_src[0] == "stored":
                if occ.shape is not exp_shape_src[1]:
                    res.bad(f"dispatch:{role}:{type(pred).__name__}:wrong stored occupancy", f"{where}: not the stored occupancy")
            else:
                if occ.time_step != t:
                    res.bad(f"dispatch:{role}:occupancy time step", f"{where}: occupancy.time_step = {occ.time_step}")
                r = judge_region(rng, exp_shape_src[1], exp_shape_src[2], occ.shape, where)
                if r:
                    res.bad(*r)
        if role in ("static", "dynamic"):
            if st is not exp_state:
                res.bad(f"dispatch:{role}:{type(pred).__name__}:state_at_time",
                        f"{where}: state_at_time returns {'None' if st is None else 'time step ' + str(st.time_step)}, "
                        f"expected {'None' if exp_state is None else 'the state with time step ' + str(exp_state.time_step)}")
            elif st is not None and role == "dynamic" and st.time_step != t:
                res.bad(f"dispatch:{role}:state time step", f"{where}: returned state has time step {st.time_step}")
        # ---- correspondence
        if occ is None:
            oo = "ONone"
            exact = True
        else:
            exact = not isinstance(occ.time_step, Interval)
            oo = f"(OOcc {qz(occ.time_step if exact else 0)} {qz(num.uid_of_occ(occ))})"
        so = "None" if st is None else f"(Some {qz(num.uid_of_state(st))})"
        res.terms.append(f"CDispatch {term} {qz(t)} {oo} {qb(exact)} {so}")
    if isinstance(pred, TrajectoryPrediction):
        tr = pred.trajectory
        tt = c_obst(ob, num)
        sts = qlist([c_st(s.time_step, 1 + i) for i, s in enumerate(tr.state_list)])
        for t in range(tr.initial_time_step - 2, tr.initial_time_step + len(tr.state_list) + 2):
            try:
                s = tr.state_at_time_step(t)
            except Exception as e:  # noqa
                res.bad(f"trajectory:state_at_time_step:raises {type(e).__name__}",
                        f"trajectory t_init={tr.initial_time_step} n={len(tr.state_list)} t={t}: raises {type(e).__name__}: {e}")
                continue
            exp = [x for x in tr.state_list if x.time_step == t]
            if (s is None) != (not exp) or (s is not None and s is not exp[0]):
                res.bad("trajectory:state_at_time_step", f"trajectory t_init={tr.initial_time_step} n={len(tr.state_list)} t={t}: "
                                                         f"wrong state")
            so = "None" if s is None else f"(Some {qz(num.uid_of_state(s))})"
            res.terms.append(f"CTraj (Build_traj {qz(tr.initial_time_step)} {sts}) {qz(t)} {so}")


def eval_scn(case, res):
    rng = random.Random(case["sub"] ^ 0xA5A5)
    try:
        sc = build(case)
        obs = sc.obstacles
        built = sorted(obs, key=lambda o: o.obstacle_id)  # insertion order = id order
        nums = {o.obstacle_id: Numbering(o, base=1000 * (o.obstacle_id - 9)) for o in built}
    except ValueError as e:
        res.bad("occupancy:raises ValueError:scenario", f"building the scenario raises ValueError {e}")
        return
    tmax = max([time_range(o)[1] for o in built] + [0]) + 1
    term = qlist([c_obst(o, nums[o.obstacle_id], with_centres=True) for o in built])
    # t = -1 (assertion), 0, the last step + 1 and up to four steps in between
    for t in [-1, 0] + sorted(rng.sample(range(1, tmax), min(4, max(0, tmax - 1)))) + ([tmax] if tmax > 0 else []):
        # occupancies_at_time_step
        for r in [None] + rng.sample(list(ROLE_ENUM), 2):   # no filter + two of the four roles per time step
            if t == -1 and r is not None:
                continue
            try:
                got = sc.occupancies_at_time_step(t, None if r is None else ROLE_ENUM[r])
            except AssertionError:
                got = None
            if t >= 0:
                exp = [(o.obstacle_id, o.occupancy_at_time(t)) for o in obs
                       if (r is None or role_of(o) == r) and o.occupancy_at_time(t) is not None]
                if got is None or len(got) != len(exp):
                    res.bad("scenario:occupancies_at_time_step:count",
                            f"scenario sub-seed {case['sub']} t={t} role={r}: {None if got is None else len(got)} occupancies, "
                            f"per-obstacle answers give {len(exp)}")
                else:
                    for (oid, e), g in zip(exp, got):
                        if not (g.shape is e.shape or g is e):
                            res.bad("scenario:occupancies_at_time_step:wrong occupancy",
                                    f"scenario sub-seed {case['sub']} t={t} role={r}: occupancy of obstacle {oid} differs "
                                    f"from obstacle.occupancy_at_time")
                # correspondence: what was returned, whatever the oracle thinks of it; the owner of a returned
                # occupancy is the obstacle that stores its region
                if got is None:
                    o_term = "None"
                else:
                    pairs = []
                    for g in got:
                        own = [(o.obstacle_id, nums[o.obstacle_id].uid_of_occ(g)) for o in built
                               if nums[o.obstacle_id].uid_of_occ(g) != -1]
                        oid, u = own[0] if own else (-1, -1)
                        pairs.append(f"({qz(oid)}, {qz(u)})")
                    o_term = f"(Some {qlist(pairs)})"
            else:
                if got is not None:
                    res.bad("scenario:occupancies_at_time_step:negative time accepted", f"t={t} accepted")
                o_term = "None" if got is None else "(Some [])"
            res.terms.append(f"COccs {term} {qz(t)} {'None' if r is None else '(Some ' + ROLE_TERM[r] + ')'} {o_term}")
        # obstacle_states_at_time_step
        try:
            gs = sc.obstacle_states_at_time_step(t)
        except AssertionError:
            gs = None
        if t >= 0:
            exp = {o.obstacle_id: o.state_at_time(t) for o in obs if role_of(o) in ("static", "dynamic")
                   and o.state_at_time(t) is not None}
            if gs is None or set(gs) != set(exp) or any(gs[k] is not exp[k] for k in exp):
                res.bad("scenario:obstacle_states_at_time_step", f"scenario sub-seed {case['sub']} t={t}: states "
                                                                 f"{None if gs is None else sorted(gs)} vs per-obstacle {sorted(exp)}")
            if gs is None:
                res.terms.append(f"CStates {term} {qz(t)} None")
            else:
                res.terms.append(f"CStates {term} {qz(t)} (Some "
                                 f"{qlist([f'({qz(k)}, {qz(nums[k].uid_of_state(v) if k in nums else -1)})' for k, v in gs.items()])})")
        else:
            res.terms.append(f"CStates {term} {qz(t)} {'None' if gs is None else '(Some [])'}")
        if t < 0:
            continue
        # obstacles_by_position_intervals
        for _ in range(1):
            cx, cy = rng.uniform(-10, 40), rng.uniform(-10, 10)
            hw, hh = rng.choice([5, 20, 100, 0.5]), rng.choice([5, 20, 100, 0.5])
            x0, x1, y0, y1 = cx - hw, cx + hw, cy - hh, cy + hh
            roles = [r for r in ROLE_ENUM if rng.random() < 0.6] or ["dynamic", "static"]
            try:
                got = sc.obstacles_by_position_intervals([Interval(x0, x1), Interval(y0, y1)],
                                                         tuple(ROLE_ENUM[r] for r in roles), t)
            except Exception as e:  # noqa  (judged: the query must answer for every obstacle mix)
                res.bad(f"scenario:obstacles_by_position_intervals:raises {type(e).__name__}",
                        f"scenario sub-seed {case['sub']} roles={sorted(set(case['roles']))} t={t}: "
                        f"obstacles_by_position_intervals raises {type(e).__name__}: {e}")
                continue

            def inside(c):
                return x0 <= c[0] <= x1 and y0 <= c[1] <= y1

            exp = set()
            for o in obs:
                ro = role_of(o)
                if ro not in roles:
                    continue
                if ro == "static":
                    p = o.initial_state.position
                    p = p.center if isinstance(p, Shape) and hasattr(p, "center") else p
                    if isinstance(p, Shape) or inside(p):
                        exp.add(o.obstacle_id)
                    continue
                oc = o.occupancy_at_time(t)
                if oc is not None and (not hasattr(oc.shape, "center") or inside(oc.shape.center)):
                    exp.add(o.obstacle_id)
            gi = [o.obstacle_id for o in got]
            if set(gi) != exp or len(gi) != len(set(gi)):
                res.bad("scenario:obstacles_by_position_intervals:wrong set",
                        f"scenario sub-seed {case['sub']} t={t} roles={roles} box=({x0},{x1})x({y0},{y1}): {sorted(gi)} vs "
                        f"per-obstacle {sorted(exp)}")
            res.terms.append(f"CByPos {term} {qlist([ROLE_TERM[r] for r in roles])} {qz(t)} {qq(x0)} {qq(x1)} {qq(y0)} "
                             f"{qq(y1)} {qlist([qz(i) for i in gi])}")
    # obstacles_by_role_and_type
    types = sorted({o.obstacle_type for o in obs if hasattr(o, "obstacle_type")}, key=lambda x: x.value)[:3]
    for r in [None] + list(ROLE_ENUM):
        for ty in [None] + rng.sample(types + [ObstacleType.TRAIN], min(2, len(types) + 1)):
            try:
                got = sc.obstacles_by_role_and_type(None if r is None else ROLE_ENUM[r], ty)
            except Exception as e:  # noqa
                res.bad(f"scenario:obstacles_by_role_and_type:raises {type(e).__name__}",
                        f"scenario with roles {sorted(set(case['roles']))}: obstacles_by_role_and_type({r}, {ty}) raises "
                        f"{type(e).__name__}: {e}")
                continue
            exp = {o.obstacle_id for o in obs if (r is None or role_of(o) == r)
                   and (ty is None or getattr(o, "obstacle_type", None) == ty)}
            gi = [o.obstacle_id for o in got]
            if set(gi) != exp or len(gi) != len(exp):
                res.bad("scenario:obstacles_by_role_and_type:wrong set", f"role={r} type={ty}: {sorted(gi)} vs {sorted(exp)}")
            res.terms.append(f"CRoleType {term} {'None' if r is None else '(Some ' + ROLE_TERM[r] + ')'} "
                             f"{'None' if ty is None else '(Some ' + qz(OTYPES.index(ty)) + ')'} {qlist([qz(i) for i in gi])}")


def flat_or_exc(f):
    try:
        return f"(OFlat {L.c_flat(L.f_shape(f()))})", None
    except Exception as e:  # noqa
        return "OExc", e


def eval_place(case, res):
    sh, pos, th = build(case)
    try:
        got = sh.rotate_translate_local(pos, th)
    except Exception as e:  # noqa
        got = None
        res.bad(f"placement:raises {type(e).__name__}:{shape_kind(sh)}", f"rotate_translate_local raises {e}")
    if got is not None:
        r = same_points(place_points(sh, pos, th), shape_points(got), max(1.0, abs(pos[0]), abs(pos[1])))
        if r:
            res.bad(f"placement:{shape_kind(sh)}:rotate_translate_local",
                    f"{shape_kind(sh)} sub-seed {case['sub']} placed at {pos.tolist()} / {th!r}: {r}")
        if isinstance(got, Rectangle) and abs(math.remainder(got.orientation - sh.orientation - th, TWO_PI)) > 1e-9:
            res.bad("placement:rectangle orientation", f"orientation {got.orientation} for {sh.orientation} + {th}")
    scale = max([1.0] + [abs(float(x)) for x in L.f_shape(sh)] + [abs(pos[0]), abs(pos[1])])
    o = "OExc" if got is None else f"(OFlat {L.c_flat(L.f_shape(got))})"
    if all(q.shapely_object.is_valid and q.shapely_object.area > 1e-6 for q in polys(sh)):
        res.terms.append(f"CPlace {qq(scale)} {L.c_shape(sh)} {L.cpt(pos)} {L.cq(th)} {qq(math.cos(th))} {qq(math.sin(th))} {o}")
    if isinstance(sh, Rectangle):
        v = sh.vertices
        res.terms.append(f"CRectVerts {qq(scale)} {L.cq(sh.length)} {L.cq(sh.width)} {L.cpt(sh.center)} "
                         f"{L.cq(sh.orientation)} {qq(math.cos(sh.orientation))} {qq(math.sin(sh.orientation))} "
                         f"(OFlat {L.c_flat([x for p in v for x in p])})")
    eval_fromstate(case, res, sh, pos, th, scale)


def c_state4(st):
    """Model/Shapes.state term of an exact state as occupancy_shape_from_state reads it: position, the stored
    orientation if the state stores one, else the velocity vector (velocity, velocity_y)"""
    stored = hasattr(st, "orientation") and not L.derived_orientation(st)
    ori = f"(Some (OExact {L.cq(st.orientation)}))" if stored else "None"
    vec = "None" if stored else f"(Some {L.cpt((st.velocity, st.velocity_y))})"
    return f"(Build_state {qz(st.time_step)} (Some (PPoint {L.cpt(st.position)})) {ori} {vec} [])"


def exact_state_term(sh, st, got, scale):
    """CFromState term: [got] = the occupancy region of [sh] at the exact state [st]; None when a polygon of the shape
    is too degenerate for the model's centroid"""
    stored = hasattr(st, "orientation") and not L.derived_orientation(st)
    # the tables hold libm's values at the arguments read off the state here, independently of the implementation
    h = st.orientation if stored else math.atan2(st.velocity_y, st.velocity)
    atab = "[]" if stored else qlist([f"({L.cq(st.velocity_y)}, {L.cq(st.velocity)}, {L.cq(h)})"])
    cstab = qlist([f"({L.cq(h)}, ({qq(math.cos(h))}, {qq(math.sin(h))}))"])
    if not all(q.shapely_object.is_valid and q.shapely_object.area > 1e-6 for q in polys(sh)):
        return None
    return (f"CFromState {qq(scale)} {L.c_shape(sh)} {c_state4(st)} {atab} {cstab} "
            f"(OFlat {L.c_flat(L.f_shape(got))})")


def initial_occupancy_terms(ob):
    """the initial occupancy of a static / dynamic obstacle against the model: exact initial state -> placement,
    uncertain -> enclosing rectangle.  This is where a stale cached initial occupancy shows in the correspondence"""
    st, sh = ob.initial_state, ob.obstacle_shape
    got = ob.occupancy_at_time(st.time_step).shape
    if st.is_uncertain_position or st.is_uncertain_orientation:
        return [] if isinstance(st.position, ShapeGroup) else enc_terms(sh, st, got)
    scale = max([1.0] + [abs(float(x)) for x in L.f_shape(sh)] + [abs(float(x)) for x in st.position])
    t = exact_state_term(sh, st, got, scale)
    return [t] if t else []


def eval_fromstate(case, res, sh, pos, th, scale):
    """the same shape at an exact state of a random class, through TrajectoryPrediction (the route on which states
    without an orientation attribute get their heading)"""
    rng = random.Random(case["sub"] ^ 0x7171)
    cls = rng.choice([KSState, PMState, "custom_pm", CustomState, PMState, "custom_pm", "both", "both"])
    v = scen.rnd(rng, 0.1, 20)
    vx, vy = rng.choice([v, -v, 0.0, v]), rng.choice([scen.rnd(rng, -5, 5), 0.0, scen.rnd(rng, -5, 5)])
    if cls == "both":
        # a state that stores an orientation AND a lateral velocity (multi-body / custom states): the stored
        # orientation counts, also when it is exactly 0 / 0.0 / -0.0
        th = rng.choice([th, th, 0.0, 0, -0.0])
        st = CustomState(time_step=1, position=pos, orientation=th, velocity=vx, velocity_y=vy or 1.5)
    elif cls is PMState:
        st = PMState(time_step=1, position=pos, velocity=vx, velocity_y=vy)
    elif cls == "custom_pm":
        st = CustomState(time_step=1, position=pos, velocity=vx, velocity_y=vy)
    elif cls is KSState:
        st = KSState(time_step=1, position=pos, orientation=th, velocity=v, steering_angle=0.0)
    else:
        st = CustomState(time_step=1, position=pos, orientation=th, velocity=v)
    where = f"{shape_kind(sh)} at a {type(st).__name__} (sub-seed {case['sub']}) through TrajectoryPrediction"
    try:
        got = TrajectoryPrediction(Trajectory(1, [st]), sh).occupancy_at_time_step(1).shape
    except Exception as e:  # noqa  (judged: an exact state of any class must be placeable)
        res.bad(f"placement:raises {type(e).__name__}:{shape_kind(sh)}:{type(st).__name__}", f"{where}: raises {e!r}")
        return
    r = judge_region(rng, sh, st, got, where)
    if r:
        res.bad(*r)
    t = exact_state_term(sh, st, got, scale)
    if t:
        res.terms.append(t)


def polys(sh):
    if isinstance(sh, Polygon):
        return [sh]
    if isinstance(sh, ShapeGroup):
        return [p for m in sh.shapes for p in polys(m)]
    return []


def box_term(b):
    return f"(Build_box {qq(b[0])} {qq(b[1])} {qq(b[2])} {qq(b[3])})"


def eval_enc(case, res):
    rng = random.Random(case["sub"] ^ 0x3C3C)
    sh, st = build(case)
    try:
        got = occupancy_shape_from_state(sh, st)
        exc = None
    except Exception as e:  # noqa
        got, exc = None, e
    if exc is not None:
        res.bad(f"occupancy:raises {type(exc).__name__}:shape={shape_kind(sh)}:{unc_kind(st)}",
                f"occupancy_shape_from_state({shape_kind(sh)}, uncertain state {unc_kind(st)}) raises {type(exc).__name__}")
    else:
        r = judge_region(rng, sh, st, got, f"occupancy_shape_from_state sub-seed {case['sub']}")
        if r:
            res.bad(*r)
    res.terms.extend(enc_terms(sh, st, got))


def enc_terms(sh, st, got):
    """correspondence terms for the enclosing rectangle [got] (None: raised) of [sh] at the uncertain state [st]:
    the quantities the formula reads, measured through the public API"""
    global MEAS_SINK
    if st.is_uncertain_orientation:
        o = st.orientation
        psi_d, delta = o.start + 0.5 * o.length, 0.5 * o.length
        om = f"(OMItv (Build_itv {L.cq(o.start)} {L.cq(o.end)}))"
    else:
        psi_d, delta = heading_of(st), 0.0
        om = f"(OMExact {L.cq(psi_d)})"
    p = st.position
    if not isinstance(p, Shape):
        pm = f"(PMExact {L.cpt(p)})"
    elif isinstance(p, Circle):
        pm = f"(PMCirc {L.cpt(p.center)} {L.cq(p.radius)})"
    elif isinstance(p, ShapeGroup):
        pm = "PMGroup"
    else:
        rb = p.rotate_translate_local(np.array([0, 0]), -psi_d).shapely_object.bounds
        pm = f"(PMBox {L.cpt(p.center)} {box_term(rb)})"
    MEAS_SINK = []
    try:
        sm, orc = measure(sh, psi_d, delta)
        terms = list(MEAS_SINK)
    finally:
        MEAS_SINK = None
    scale = max([1.0] + [abs(float(x)) for x in L.f_shape(sh)] + [abs(float(x)) for x in L.f_state(st)])
    o = "OExc" if got is None else f"(OFlat {L.c_flat(L.f_shape(got))})"
    return terms + [f"CEnclose {qq(scale)} {sm} {pm} {om} {orc} {o}"]


MEAS_SINK = None   # eval_enc collects the CMeas terms of the primitive shapes it measures here


def measure(sh, psi_d, delta):
    """(shape_meas term, enc_oracle term) of one shape: bounds / centre of rotation through the public API, the
    transcendental functions through numpy / math at the arguments the formula uses"""
    if isinstance(sh, ShapeGroup):
        ms = [measure(m, psi_d, delta) for m in sh.shapes]
        zero = "(Build_enc_oracle 1 0 1 0 1 0 0 0)"
        return f"(SMGroup {qlist(['(' + a + ', ' + b + ')' for a, b in ms])})", zero
    if isinstance(sh, Circle):
        sm = f"(SMCirc {L.cq(sh.radius)} {L.cpt(sh.center)})"
        l_v = w_v = 2.0 * sh.radius
        off = np.zeros(2)
    else:
        b = sh.shapely_object.bounds
        sm = f"(SMBox {box_term(b)} {L.cpt(sh.center)})"
        l_v, w_v = abs(b[2] - b[0]), abs(b[3] - b[1])
        off = np.array([0.5 * (b[0] + b[2]), 0.5 * (b[1] + b[3])]) - sh.center
    with np.errstate(all="ignore"):
        dl = min(delta, np.arctan(w_v / l_v))
        dw = min(delta, np.arctan(l_v / w_v))
    if MEAS_SINK is not None and (isinstance(sh, Circle) or isinstance(sh, Rectangle)
                                  or (sh.shapely_object.is_valid and sh.shapely_object.area > 1e-6)):
        o = sh.orientation if isinstance(sh, Rectangle) else 0.0
        sc = max([1.0] + [abs(float(x)) for x in L.f_shape(sh)])
        MEAS_SINK.append(f"CMeas {qq(sc)} {L.c_shape(sh)} {qq(math.cos(o))} {qq(math.sin(o))} {sm}")
    orc = (f"(Build_enc_oracle {qq(np.cos(dl))} {qq(np.sin(dl))} {qq(np.cos(dw))} {qq(np.sin(dw))} {qq(math.cos(psi_d))} "
           f"{qq(math.sin(psi_d))} {qq(float(np.linalg.norm(off)))} {qq(math.sin(0.5 * delta))})")
    return sm, orc


EVAL = {"obs": eval_obs, "scn": eval_scn, "place": eval_place, "enc": eval_enc}


def evaluate(case):
    res = Result()
    try:
        EVAL[case["kind"]](case, res)
    except Exception as e:  # noqa
        # an exception raised inside the library by a call the statement gives an answer for (every query of the
        # admissible domain returns a value or None) is a violation with this case as replay; an exception of the
        # harness itself propagates (vlib/main.py reports the crash)
        import traceback
        frames = traceback.extract_tb(e.__traceback__)
        lib = [f for f in frames if "/commonroad/" in f.filename.replace("\\", "/")]
        if not lib:
            raise
        res.bad(f"raises {type(e).__name__}:{case['kind']}:{lib[-1].name}",
                f"{case['kind']} case sub-seed {case['sub']}: {lib[-1].name} "
                f"({lib[-1].filename.split('/commonroad/')[-1]}:{lib[-1].lineno}) raises {type(e).__name__}: {e}")
    return res


def oracle(case):
    return evaluate(case).fail


IMPORTS = ("From Coq Require Import QArith ZArith List Bool NArith.\nImport ListNotations.\n"
           "From CR Require Import Base.QMod Model.Interval Model.Transform Model.Shapes Model.Scene Model.Occupancy "
           "Corr.Obs Corr.C05 Corr.C04.\nOpen Scope Q_scope.\n")


def run(ctx):
    ctx.trusted = ["Coq 8.16.1 kernel + vm_compute (no native_compute)",
                   "axioms: none (Print Assumptions: Closed under the global context for every theorem)",
                   "hand-written model coq/Model/Occupancy.v (+ Shapes.v, Transform.v) of the dispatch / placement / "
                   "enclosure code (line ranges in the file header), tied to the code by the correspondence relation "
                   "coq/Corr/C04.v evaluated on every run",
                   "harness/props/c04.py, c05_lib.py, vlib/scen.py (generators, independent placement and sampling "
                   "oracle, Coq term printers)",
                   "numpy / libm arctan, cos, sin, sqrt, atan2; shapely bounds, centroid and affinity.rotate (oracle inputs of "
                   "the placement / enclosure model; the enclosure theorems (..._partial) carry the trigonometric facts "
                   "assumed about them as hypotheses orc_ok / dev_ok, see Props/C04.v)"]
    ctx.trusted.insert(3, "harness/vlib/py2coq.py + harness/props/c04_src.py: translator (symbolic execution, fail-closed) of "
                          "Trajectory.state_at_time_step, Prediction.occupancy_at_time_step, StaticObstacle / DynamicObstacle "
                          "occupancy_at_time and state_at_time (scenario/trajectory.py, prediction/prediction.py, "
                          "scenario/obstacle.py) into coq/Gen/Src_dispatch.v on every run, one definition per prediction "
                          "configuration; C04_model_is_source proves the dispatch of Model/Occupancy.v equal to that text; "
                          "states and shapes opaque, the cached attributes _initial_occupancy_shape and "
                          "TrajectoryPrediction.occupancy_set read as fields (hypotheses shape_ok / occs_ok, observed by the "
                          "correspondence), pyindex / len / first-hit for-loop as in c04_src.py")
    t_start = time.time()
    from props import c04_src
    try:
        changed = c04_src.generate()
        ctx.notes.append(f"Gen/Src_dispatch.v regenerated from the source ({'changed' if changed else 'unchanged'})")
    except Exception as e:   # TranslationError, SyntaxError, OSError: fail closed, the model is no longer shown to be the source
        ctx.proof_breaks.append({"theorem": "translator:Gen/Src_dispatch.v (C04_model_is_source)",
                                 "where": "harness/props/c04_src.py", "log": str(e)})
        ctx.log(f"translator failed: {e}")
    ctx.build_props(extra_targets=("Corr/C04.vo",))
    t_built = time.time()
    if ctx.tier == "thorough":
        ctx.coqchk()
    n = ctx.n(400, 4000)
    cases = load_corpus(ctx.prop) + gen(ctx.rng, n)
    terms, owner = [], []

    def process(cs, with_corr=True):
        for c in cs:
            ctx.count(c, nontrivial(c), kind(c))
            r = evaluate(c)
            if r.fail:
                ctx.fail(r.fail[0], r.fail[1], c)
            if with_corr:
                for t in r.terms:
                    terms.append(t)
                    owner.append(c)

    process(cases)
    t_eval = time.time()
    defs = f"Definition tau : Q := {qq(TWO_PI)}.\nDefinition chk := check tau.\n"
    bad, errors = ctx.coq_bad_indices("corr", IMPORTS, defs, terms, "chk", shard=400)
    ctx.coverage["correspondence_cases"] = len(terms)
    ctx.coverage["tolerance"] = "1e-9 * (max(1,|x|) + largest input magnitude); orientations modulo 2pi"
    for e in errors:
        ctx.corr_break("Corr.C04.check (coqc failed)", e)
    for i in bad:
        ctx.corr_break("Corr.C04.check: Model/Occupancy.v vs implementation", dict(owner[i], term=terms[i][:300]))
    ctx.log(f"corr terms={len(terms)} disagree={len(bad)} coq_errors={len(errors)}")
    ctx.log(f"timing: build (incl. waiting for the build lock) {t_built - t_start:.0f}s, cases + oracle {t_eval - t_built:.0f}s, "
            f"model evaluation in Coq {time.time() - t_eval:.0f}s")
    for i in bad[:4]:
        ctx.log(f"  disagreeing: {kind(owner[i])} sub-seed {owner[i]['sub']}: {terms[i][:260]}")
    if (ctx.proof_breaks or ctx.corr_breaks) and not ctx.failures:
        ctx.log(f"proof/correspondence broke ({len(ctx.proof_breaks)}/{len(ctx.corr_breaks)}); widening the search")
        process([b["case"] for b in ctx.corr_breaks if isinstance(b.get("case"), dict) and "kind" in b["case"]], False)
        if not ctx.failures:
            process(gen(ctx.rng, n * 6), with_corr=False)
    return ctx.finish(RULE, assumptions=ASSUME)
