"""C09 — object ids in a scenario stay unique and the id pool stays exact.

case   = {"universe": [object templates with colliding ids], "ops": [operations by universe index], "wild": bool}
oracle = lock-step abstract id pool written from the property statement (class Pool) against the real Scenario
corr   = Model/IdPool.v evaluated by vm_compute on the same op sequences (Corr/C09.v): after every step the result
         (unit / generated id / exception class), the contained ids per kind (with the lanelets' sign / light
         references and the incoming ids), sorted _id_set and _id_counter must agree."""
import warnings

import numpy as np

from vlib.core import qz, qb, qlist, qopt, sha
from vlib.flow import load_corpus

from commonroad.geometry.shape import Rectangle
from commonroad.prediction.prediction import Occupancy, SetBasedPrediction
from commonroad.scenario.intersection import Intersection, IntersectionIncomingElement
from commonroad.scenario.lanelet import Lanelet, LaneletNetwork
from commonroad.scenario.obstacle import (DynamicObstacle, EnvironmentObstacle, ObstacleType, PhantomObstacle,
                                          StaticObstacle)
from commonroad.scenario.scenario import Scenario, ScenarioID
from commonroad.scenario.state import InitialState
from commonroad.scenario.traffic_light import (TrafficLight, TrafficLightCycle, TrafficLightCycleElement,
                                               TrafficLightState)
from commonroad.scenario.traffic_sign import TrafficSign, TrafficSignElement, TrafficSignIDGermany

RULE = ("operation sequences (length 1-40) over a universe of 8-16 objects (lanelets with sign/light references, signs, "
        "lights, intersections with 1-3 incomings, obstacles of the four roles) whose ids are drawn from 1..10 so that "
        "they collide; ops: add_objects (single / list / network, with lanelet_ids), remove_obstacle / remove_lanelet "
        "(referenced_elements on/off) / remove_traffic_sign / remove_traffic_light / remove_intersection (single and "
        "list form, only contained objects unless the sequence is marked wild), replace_lanelet_network, "
        "generate_object_id; removed objects are preferentially re-added.  evaluations = steps; distinct = distinct "
        "sequences; non-trivial = the sequence contains at least one rejected add and one removal")
ASSUME = ["obstacles carry no lanelet assignment (the obstacle-lanelet registry is property C07)",
          "network arguments of add_objects / replace_lanelet_network are built from objects that are not contained at "
          "that moment (no aliasing between the argument and the network being erased)",
          "list arguments are flat (no nested lists)",
          "wild sequences (removal of absent objects: unspecified behaviour, DESIGN 2.7) are used for the "
          "correspondence only; the oracle stops judging at the first out-of-domain operation"]

NET_KINDS = ("lanelet", "sign", "light", "inter")
OBST_KINDS = ("static", "dynamic", "env", "phantom")
V = np.array


# ------------------------------------------------------------------------------------ universe
def gen_universe(rng):
    hi = rng.choice([6, 8, 10])

    def rid():
        return rng.randint(1, hi)

    if rng.random() < 0.08:
        # obstacles only, none with a positive id: the counter of generate_object_id then moves through zero
        return [{"k": rng.choice(OBST_KINDS), "id": rng.randint(-4, 0)} for _ in range(rng.randint(2, 5))]
    U = []
    sign_ids = [rid() for _ in range(rng.randint(1, 3))]
    light_ids = [rid() for _ in range(rng.randint(1, 2))]
    for _ in range(rng.randint(2, 5)):
        ss = sorted(set(rng.sample(sign_ids, rng.randint(0, len(sign_ids)))) | ({rid()} if rng.random() < 0.1 else set()))
        ls = sorted(set(rng.sample(light_ids, rng.randint(0, len(light_ids)))))
        U.append({"k": "lanelet", "id": rid(), "signs": ss, "lights": ls})
    for s in sign_ids:
        U.append({"k": "sign", "id": s})
    for t in light_ids:
        U.append({"k": "light", "id": t})
    for _ in range(rng.randint(1, 2)):
        incs = [rng.randint(1, hi + 3) for _ in range(rng.randint(1, 3))]
        lan = [u["id"] for u in U if u["k"] == "lanelet"]
        # the incoming elements are fed by lanelets of the universe (in half of the intersections)
        feeds = {str(j): sorted(set(rng.sample(lan, rng.randint(1, min(2, len(lan)))))) for j in incs} \
            if rng.random() < 0.5 else {}
        U.append({"k": "inter", "id": rid(), "incs": incs, "feeds": feeds})
    # obstacle ids may be any integer (the library's own tests use 0, -5, -50): one universe in three draws them from
    # a range that contains zero and negative numbers
    lo = rng.choice([1, 1, -1, -3])
    for _ in range(rng.randint(2, 4)):
        U.append({"k": rng.choice(OBST_KINDS), "id": rid() if lo == 1 else rng.randint(lo, lo + 4)})
    return U


def build(u):
    """one Python object per universe entry, through the public constructors"""
    k, i = u["k"], u["id"]
    if k == "lanelet":
        return Lanelet(V([[0., 1.], [1., 1.]]), V([[0., .5], [1., .5]]), V([[0., 0.], [1., 0.]]), i,
                       traffic_signs=set(u["signs"]), traffic_lights=set(u["lights"]))
    if k == "sign":
        return TrafficSign(i, [TrafficSignElement(TrafficSignIDGermany.STOP, [])], set(), V([0., 0.]))
    if k == "light":
        return TrafficLight(i, V([0., 0.]), TrafficLightCycle([TrafficLightCycleElement(TrafficLightState.RED, 2)]))
    if k == "inter":
        return Intersection(i, [IntersectionIncomingElement(j, set(u.get("feeds", {}).get(str(j), [])), set(), set(), set())
                                for j in u["incs"]])
    shape = Rectangle(2.0, 1.0)
    init = InitialState(time_step=0, position=V([0., 0.]), orientation=0.0, velocity=0.0, acceleration=0.0,
                        yaw_rate=0.0, slip_angle=0.0)
    if k == "static":
        return StaticObstacle(i, ObstacleType.PARKED_VEHICLE, shape, init)
    if k == "dynamic":
        return DynamicObstacle(i, ObstacleType.CAR, shape, init, None)
    if k == "env":
        return EnvironmentObstacle(i, ObstacleType.BUILDING, shape)
    return PhantomObstacle(i, SetBasedPrediction(1, [Occupancy(1, shape)]))


def ids_of(u):
    return [u["id"]] + list(u.get("incs", []))


# ------------------------------------------------------------------------------------ observation
def observe(sc):
    net = sc.lanelet_network
    return {
        "lanelet": sorted([la.lanelet_id, sorted(la.traffic_signs), sorted(la.traffic_lights)] for la in net.lanelets),
        "sign": sorted(s.traffic_sign_id for s in net.traffic_signs),
        "light": sorted(t.traffic_light_id for t in net.traffic_lights),
        "inter": sorted([x.intersection_id, [inc.incoming_id for inc in x.incomings]] for x in net.intersections),
        "static": sorted(o.obstacle_id for o in sc.static_obstacles),
        "dynamic": sorted(o.obstacle_id for o in sc.dynamic_obstacles),
        "env": sorted(o.obstacle_id for o in sc.environment_obstacle),
        "phantom": sorted(o.obstacle_id for o in sc.phantom_obstacle),
        "idset": sorted(sc._id_set),
        "counter": sc._id_counter,
    }


def contained_objects(sc):
    net = sc.lanelet_network
    return (list(net.lanelets) + list(net.traffic_signs) + list(net.traffic_lights) + list(net.intersections)
            + list(sc.static_obstacles) + list(sc.dynamic_obstacles) + list(sc.environment_obstacle)
            + list(sc.phantom_obstacle))


def all_ids(ob):
    out = [x[0] for x in ob["lanelet"]] + ob["sign"] + ob["light"]
    for x in ob["inter"]:
        out += [x[0]] + x[1]
    for k in OBST_KINDS:
        out += ob[k]
    return out


# ------------------------------------------------------------------------------------ the property, executable
class Pool:
    """abstract id pool: which universe objects are contained, which ids were generated"""

    def __init__(self, U):
        self.U = U
        self.inside = set()  # universe indices
        self.generated = set()
        self.rejected = None  # kind of the argument the last add stopped at

    def used(self):
        out = []
        for i in self.inside:
            out += ids_of(self.U[i])
        return out

    def admits(self, idxs, drop=()):
        """may the objects idxs be added (after the objects in drop left)?  ids pairwise distinct and unused"""
        used = []
        for i in self.inside:
            if i not in drop:
                used += ids_of(self.U[i])
        new = []
        for i in idxs:
            new += ids_of(self.U[i])
        return len(set(new)) == len(new) and not (set(new) & set(used))

    def network(self):
        return {i for i in self.inside if self.U[i]["k"] in NET_KINDS}


def arg_indices(a):
    return [a["u"]] if "u" in a else list(a["net"])


def arg_name(U, a):
    return "LaneletNetwork" if "net" in a else {"lanelet": "Lanelet", "sign": "TrafficSign", "light": "TrafficLight",
                                                  "inter": "Intersection"}.get(U[a["u"]]["k"], "Obstacle")


def op_name(U, op):
    o = op["op"]
    if o == "add":
        return f"add_objects({arg_name(U, op['arg'])})"
    if o == "add_list":
        return "add_objects(list)"
    if o == "remove":
        nm = {"lanelet": "remove_lanelet", "sign": "remove_traffic_sign", "light": "remove_traffic_light",
              "inter": "remove_intersection", "obstacle": "remove_obstacle"}[op["kind"]]
        return nm + ("[list]" if op["list"] else "")
    return {"replace": "replace_lanelet_network", "generate": "generate_object_id"}[o]


def in_domain(pool, op):
    """DESIGN 2.7: removals only of (distinct) objects currently contained; everything else is admissible"""
    if op["op"] != "remove":
        return True
    us = op["us"]
    if len(set(us)) != len(us):
        return False
    if op["kind"] == "obstacle":
        # remove_obstacle of an obstacle that is not contained only warns - as long as no contained obstacle has its id
        # (then the library would remove that one): a stale handle whose id has meanwhile gone to a lanelet / sign / ...
        held = {pool.U[i]["id"] for i in pool.inside if pool.U[i]["k"] in OBST_KINDS}
        return all(u in pool.inside or pool.U[u]["id"] not in held for u in us)
    return all(u in pool.inside for u in us)


# ------------------------------------------------------------------------------------ running one case
def make_net(objs):
    net = LaneletNetwork()
    for o in objs:
        if isinstance(o, Lanelet):
            net.add_lanelet(o)
        elif isinstance(o, TrafficSign):
            net.add_traffic_sign(o, set())
        elif isinstance(o, TrafficLight):
            net.add_traffic_light(o, set())
        else:
            net.add_intersection(o)
    return net


def make_arg(O, a):
    return O[a["u"]] if "u" in a else make_net([O[i] for i in a["net"]])


def apply_op(sc, O, op):
    """run one operation on the implementation; returns ('unit',) | ('id', g) | ('exc', name).
    Also returns the Coq term of the operation with the argument values read at call time."""
    o = op["op"]
    lids = None if op.get("lids") is None else set(op["lids"])
    term = None
    if o == "add":
        arg = make_arg(O, op["arg"])
        term = f"Add {coq_arg(arg)} {qlist([qz(z) for z in sorted(lids or [])])}"
        call = (lambda: sc.add_objects(arg, lids)) if lids is not None else (lambda: sc.add_objects(arg))
    elif o == "add_list":
        args = [make_arg(O, a) for a in op["args"]]
        term = f"AddList {qlist([coq_arg(a) for a in args])} {qlist([qz(z) for z in sorted(lids or [])])}"
        call = (lambda: sc.add_objects(args, lids)) if lids is not None else (lambda: sc.add_objects(args))
    elif o == "remove":
        objs = [O[u] for u in op["us"]]
        a = objs if op["list"] else objs[0]
        kind = op["kind"]
        if kind == "lanelet":
            refs = bool(op.get("refs", True))
            ls = qlist([coq_lanelet(x) for x in objs])
            term = f"RemoveLanelets {ls} {qb(refs)}" if op["list"] else f"RemoveLanelet {coq_lanelet(objs[0])} {qb(refs)}"
            call = lambda: sc.remove_lanelet(a, refs)  # noqa
        elif kind == "sign":
            zs = [qz(x.traffic_sign_id) for x in objs]
            term = f"RemoveSigns {qlist(zs)}" if op["list"] else f"RemoveSign {zs[0]}"
            call = lambda: sc.remove_traffic_sign(a)  # noqa
        elif kind == "light":
            zs = [qz(x.traffic_light_id) for x in objs]
            term = f"RemoveLights {qlist(zs)}" if op["list"] else f"RemoveLight {zs[0]}"
            call = lambda: sc.remove_traffic_light(a)  # noqa
        elif kind == "inter":
            xs = [coq_inter(x) for x in objs]
            term = f"RemoveInters {qlist(xs)}" if op["list"] else f"RemoveInter {xs[0]}"
            call = lambda: sc.remove_intersection(a)  # noqa
        else:
            zs = [qz(x.obstacle_id) for x in objs]
            term = f"RemoveObstacles {qlist(zs)}" if op["list"] else f"RemoveObstacle {zs[0]}"
            call = lambda: sc.remove_obstacle(a)  # noqa
    elif o == "replace":
        net = make_net([O[i] for i in op["net"]])
        term = f"Replace {coq_net(net)}"
        call = lambda: sc.replace_lanelet_network(net)  # noqa
    elif o == "generate":
        term = "Generate"
        call = sc.generate_object_id
    else:
        raise RuntimeError(o)
    try:
        r = call()
    except (ValueError, KeyError, AssertionError, AttributeError, TypeError) as e:
        return ("exc", type(e).__name__), term
    return (("id", r) if o == "generate" else ("unit",)), term


def judge(pool, op, out, before, after, now_inside):
    """the property statement for one step.  Returns None | (problem, detail); updates the pool.
    before / after: observations; now_inside: universe indices of the objects the scenario holds afterwards."""
    U = pool.U
    o = op["op"]
    exc = out[1] if out[0] == "exc" else None
    was = set(pool.inside)

    def content(ob):
        return {k: ob[k] for k in ob if k not in ("idset", "counter")}

    problem = None
    if o in ("add", "add_list"):
        args = [op["arg"]] if o == "add" else op["args"]
        expect_exc = None
        for a in args:
            idxs = arg_indices(a)
            if not pool.admits(idxs):  # some id is in use (or occurs twice in the argument)
                expect_exc = "ValueError"
                pool.rejected = arg_name(U, a)
                break
            if "net" in a:  # a network argument replaces the network of the scenario
                pool.inside -= pool.network()
            pool.inside |= set(idxs)
        if expect_exc and exc != expect_exc:
            problem = ("id in use but no ValueError", f"expected ValueError, got {out}")
        elif not expect_exc and exc:
            problem = ("add of an object with free ids raises", f"got {out}")
        elif expect_exc and o == "add" and content(before) != content(after):
            problem = ("rejected add changed the scenario", f"{content(before)} -> {content(after)}")
        elif expect_exc and o == "add" and before["idset"] != after["idset"]:
            problem = ("rejected add changed the id pool", f"reserved {before['idset']} -> {after['idset']}")
    elif o == "remove":
        if exc:
            problem = ("removal of a contained object raises", f"got {out}")
        else:
            gone = was - now_inside
            extra = {u for u in gone if u not in op["us"]}
            pool.inside -= set(op["us"])
            # signs / lights may leave together with a lanelet (which ones is property C10)
            if op["kind"] == "lanelet" and op.get("refs", True):
                pool.inside -= {u for u in extra if U[u]["k"] in ("sign", "light")}
    elif o == "replace":
        idxs = list(op["net"])
        ok = pool.admits(idxs, pool.network())
        if ok and exc:
            problem = ("replace with free ids raises", f"got {out}")
        elif not ok and exc != "ValueError":
            problem = ("id in use but no ValueError", f"expected ValueError, got {out}")
        elif ok:
            pool.inside -= pool.network()
            pool.inside |= set(idxs)
        else:  # the statement leaves open whether the old network survives a rejected replacement
            pool.inside -= {u for u in pool.network() if u not in now_inside}
    elif o == "generate":
        if out[0] != "id":
            problem = ("generate_object_id raises", f"got {out}")
        else:
            g = out[1]
            if g in pool.used():
                problem = ("generated id is in use", f"{g} used by a contained object")
            elif g in pool.generated:
                problem = ("generated id was returned before", f"{g}")
            elif content(before) != content(after):
                problem = ("generate_object_id changed the scenario", "")
            pool.generated.add(g)
    if problem:
        return problem
    # state clauses, after every step
    if now_inside != pool.inside:
        return ("contained objects differ from the operations performed",
                f"scenario holds {sorted(now_inside)}, expected {sorted(pool.inside)} (universe indices)")
    ids = all_ids(after)
    if len(set(ids)) != len(ids):
        return ("two contained objects share an id", f"ids {sorted(ids)}")
    if after["idset"] != sorted(ids):
        leaked = sorted(set(after["idset"]) - set(ids))
        missing = sorted(set(ids) - set(after["idset"]))
        return ("ids stay reserved" if leaked and not missing else "id pool not exact",
                f"reserved-but-unused {leaked}, used-but-free {missing}")
    return None


def execute(case, chooser=None, limit=None):
    """runs a case on the implementation in lock-step with the abstract pool.
    chooser(pool, sc, step) -> op | None generates the ops adaptively (then case['ops'] is filled in).
    returns (failure | None, trace) ; trace = [(coq op term, result, observation)], failure = (signature, what)"""
    U = case["universe"]
    O = [build(u) for u in U]
    index = {id(o): i for i, o in enumerate(O)}
    sc = Scenario(0.1, ScenarioID())
    pool = Pool(U)
    trace = []
    failure = None
    judging = True
    ops = case["ops"]
    step = 0
    while True:
        if chooser is not None:
            op = chooser(pool, sc, step, judging)
            if op is None:
                break
            ops.append(op)
        else:
            if step >= len(ops):
                break
            op = ops[step]
        pool.rejected = None
        before = observe(sc)
        out, term = apply_op(sc, O, op)
        after = observe(sc)
        trace.append((term, out, after))
        if judging and not in_domain(pool, op):
            judging = False
        if not judging and out[0] == "exc" and out[1] not in ("ValueError", "KeyError"):
            # out of the domain and outside the model (e.g. an EnvironmentObstacle passed where the id belongs to a
            # static obstacle: AttributeError): unspecified behaviour, the sequence ends before this step
            trace.pop()
            if chooser is not None:
                ops.pop()
            break
        if not judging:  # keep the generator's view in step with the implementation
            pool.inside = {index[id(x)] for x in contained_objects(sc) if id(x) in index}
        if judging:
            now_inside = {index[id(x)] for x in contained_objects(sc) if id(x) in index}
            pr = judge(pool, op, out, before, after, now_inside)
            if pr:
                nm = op_name(U, op)
                if op["op"] == "add_list":  # name the element the list stops at
                    nm += f"[{pool.rejected} rejected]" if pool.rejected else "[all accepted]"
                failure = (f"{nm}:{pr[0]}", f"step {step} {op}: {pr[0]}; {pr[1]}")
                break
        step += 1
    return failure, trace


def oracle(case):
    c = {"universe": case["universe"], "ops": list(case["ops"])}
    return execute(c)[0]


# ------------------------------------------------------------------------------------ generator (adaptive)
def make_chooser(rng, U, n_steps, wild):
    by_kind = {}
    for i, u in enumerate(U):
        by_kind.setdefault(u["k"], []).append(i)
    net_objs = [i for i, u in enumerate(U) if u["k"] in NET_KINDS]
    lanelet_ids = sorted({u["id"] for u in U if u["k"] == "lanelet"})

    def pick_net(pool, allow_inside):
        cand = [i for i in net_objs if allow_inside or i not in pool.inside]
        rng.shuffle(cand)
        cand = cand[: rng.randint(0, min(6, len(cand)))]
        seen, out = set(), []
        for i in cand:  # a LaneletNetwork holds one object per kind and id
            key = (U[i]["k"], U[i]["id"])
            if key not in seen:
                seen.add(key)
                out.append(i)
        order = {"lanelet": 0, "sign": 1, "light": 2, "inter": 3}
        return sorted(out, key=lambda i: order[U[i]["k"]])

    def pick_lids():
        if rng.random() < 0.5:
            return None
        return sorted(set(rng.sample(lanelet_ids, rng.randint(0, len(lanelet_ids)))) | ({rng.randint(1, 12)} if rng.random() < 0.2 else set()))

    def chooser(pool, sc, step, judging):
        if step >= n_steps:
            return None
        r = rng.random()
        outside = [i for i in range(len(U)) if i not in pool.inside]
        if r < 0.34 or not pool.inside and r < 0.7:
            # prefer objects that are outside (incl. removed ones), sometimes a contained one
            src = outside if outside and rng.random() < 0.8 else list(range(len(U)))
            return {"op": "add", "arg": {"u": rng.choice(src)}, "lids": pick_lids()}
        if r < 0.40:
            args = []
            for _ in range(rng.randint(1, 3)):
                if rng.random() < 0.15:
                    args.append({"net": pick_net(pool, False)})
                else:
                    args.append({"u": rng.choice(outside or list(range(len(U))))})
            return {"op": "add_list", "args": args, "lids": pick_lids()}
        if r < 0.47:
            return {"op": "add", "arg": {"net": pick_net(pool, rng.random() < 0.2)}, "lids": None}
        if r < 0.52:
            return {"op": "replace", "net": pick_net(pool, False)}
        if r < 0.64:
            return {"op": "generate"}
        # removals
        kind = rng.choice(["lanelet", "lanelet", "sign", "light", "inter", "inter", "obstacle", "obstacle"])
        kinds = OBST_KINDS if kind == "obstacle" else (kind,)
        inside = [i for i in pool.inside if U[i]["k"] in kinds]
        absent = [i for i in range(len(U)) if U[i]["k"] in kinds and i not in pool.inside]
        as_list = rng.random() < 0.45
        stale = [i for i in absent if kind == "obstacle" and U[i]["id"] in {U[j]["id"] for j in pool.inside
                                                                           if U[j]["k"] not in OBST_KINDS}
                 and U[i]["id"] not in {U[j]["id"] for j in pool.inside if U[j]["k"] in OBST_KINDS}]
        if stale and rng.random() < 0.5:
            us = [rng.choice(stale)]         # a stale obstacle handle whose id now belongs to a network element
            as_list = rng.random() < 0.3
        elif wild and absent and rng.random() < 0.15:
            us = [rng.choice(absent)] + (rng.sample(inside, min(len(inside), 1)) if as_list else [])
            rng.shuffle(us)
        elif inside:
            us = rng.sample(sorted(inside), rng.randint(1, min(3, len(inside))) if as_list else 1)
        else:
            return {"op": "generate"} if rng.random() < 0.3 else \
                {"op": "add", "arg": {"u": rng.choice(outside or [0])}, "lids": None}
        if as_list and wild and rng.random() < 0.1:
            us = us + us[:1]
        return {"op": "remove", "kind": kind, "us": us, "list": as_list, "refs": rng.random() < 0.7}

    return chooser


def gen_case(rng):
    U = gen_universe(rng)
    wild = rng.random() < 0.2
    n_steps = rng.choice([rng.randint(1, 12), rng.randint(10, 40), rng.randint(20, 40)])
    case = {"universe": U, "ops": [], "wild": wild}
    failure, trace = execute(case, make_chooser(rng, U, n_steps, wild))
    return case, failure, trace


# ------------------------------------------------------------------------------------ Coq terms
def coq_lanelet(la):
    return (f"(mkL {qz(la.lanelet_id)} {qlist([qz(z) for z in sorted(la.traffic_signs)])} "
            f"{qlist([qz(z) for z in sorted(la.traffic_lights)])})")


def coq_inter(x):
    return f"(mkX {qz(x.intersection_id)} {qlist([qz(inc.incoming_id) for inc in x.incomings])})"


def coq_net(net):
    return (f"(mkN {qlist([coq_lanelet(la) for la in net.lanelets])} "
            f"{qlist([qz(s.traffic_sign_id) for s in net.traffic_signs])} "
            f"{qlist([qz(t.traffic_light_id) for t in net.traffic_lights])} "
            f"{qlist([coq_inter(x) for x in net.intersections])})")


def coq_arg(a):
    if isinstance(a, LaneletNetwork):
        return f"(ANet {coq_net(a)})"
    if isinstance(a, Lanelet):
        return f"(AObj (OLanelet {coq_lanelet(a)}))"
    if isinstance(a, TrafficSign):
        return f"(AObj (OSign {qz(a.traffic_sign_id)}))"
    if isinstance(a, TrafficLight):
        return f"(AObj (OLight {qz(a.traffic_light_id)}))"
    if isinstance(a, Intersection):
        return f"(AObj (OInter {coq_inter(a)}))"
    role = {StaticObstacle: "Static", DynamicObstacle: "Dynamic", EnvironmentObstacle: "Env",
            PhantomObstacle: "Phantom"}[type(a)]
    return f"(AObj (OObst {role} {qz(a.obstacle_id)}))"


def coq_obs(out, ob):
    if out[0] == "unit":
        r = "RUnit"
    elif out[0] == "id":
        r = f"(RId {qz(out[1])})"
    else:
        r = {"ValueError": "(RErr ValueError)", "KeyError": "(RErr KeyError)"}.get(out[1], "(RErr OtherError)")
    zl = lambda l: qlist([qz(z) for z in l])  # noqa
    ls = qlist([f"(mkL {qz(x[0])} {zl(x[1])} {zl(x[2])})" for x in ob["lanelet"]])
    xs = qlist([f"(mkX {qz(x[0])} {zl(x[1])})" for x in ob["inter"]])
    return (f"(mkObs {r} {ls} {zl(ob['sign'])} {zl(ob['light'])} {xs} {zl(ob['static'])} {zl(ob['dynamic'])} "
            f"{zl(ob['env'])} {zl(ob['phantom'])} {zl(ob['idset'])} {qopt(ob['counter'], qz)})")


def coq_case(trace):
    return qlist([f"({t}, {coq_obs(out, ob)})" for t, out, ob in trace])


def corr(ctx, traces, cases):
    imports = ("From Coq Require Import ZArith List Bool NArith.\nImport ListNotations.\n"
               "From CR Require Import Model.IdPool Corr.C09.\nOpen Scope Z_scope.\n")
    terms = [coq_case(t) for t in traces]
    bad, errors = ctx.coq_bad_indices("corr", imports, "", terms, "check", shard=ctx.n(40, 150))
    ctx.coverage["correspondence_sequences"] = len(terms)
    ctx.coverage["correspondence_steps"] = sum(len(t) for t in traces)
    for e in errors:
        ctx.corr_break("Corr.C09.check (coqc failed)", e)
    for i in bad:
        ctx.corr_break("Corr.C09.check: Model/IdPool.v vs commonroad.scenario.scenario.Scenario (state after every step)",
                       cases[i])
    ctx.log(f"corr sequences={len(terms)} steps={ctx.coverage['correspondence_steps']} disagree={len(bad)} "
            f"coq_errors={len(errors)}")


# ------------------------------------------------------------------------------------ driver
def nontrivial(case, trace):
    rej = any(out == ("exc", "ValueError") for _, out, _ in trace)
    rem = any(op["op"] in ("remove", "replace") for op in case["ops"])
    return rej and rem


def run(ctx):
    warnings.filterwarnings("ignore")
    ctx.trusted = ["Coq 8.16.1 kernel + vm_compute (no native_compute)",
                   "axioms: none (Print Assumptions: Closed under the global context for every theorem)",
                   "hand-written model coq/Model/IdPool.v of commonroad/scenario/scenario.py:586-588,686-771,842-1044,"
                   "1329-1370 and the LaneletNetwork add_* / remove_* / cleanup_traffic_*_references methods of "
                   "lanelet.py it calls, tied to the code by the correspondence relation coq/Corr/C09.v on every run",
                   "harness/props/c09.py (universe / sequence generator, abstract-pool oracle, Coq term printer)",
                   "CPython dict insertion order (model keeps association lists in insertion order; compared sorted)"]
    ctx.trusted.insert(3, "harness/props/c09_src.py: parser of the syntax trees of Scenario._is_object_id_used / "
                          "_mark_object_id_as_used / _mark_object_ids_as_used / generate_object_id (scenario.py) into the "
                          "statement language of coq/Model/IdPoolSrc.v, regenerated on every run as coq/Gen/Src_idpool.v "
                          "(fail-closed); C09_mark_one_is_source / C09_mark_all_is_source / C09_generate_is_source prove the "
                          "parsed programs equal to mark_one / mark_all / generate of Model/IdPool.v; the meaning the "
                          "interpreter gives to the accepted Python shapes is trusted; (removals: "
                          "c09_rm_src.py, adds: c09_add_src.py, hanging members: c09_hang_src.py)")
    from props import c09_src
    try:
        changed = c09_src.generate()
        ctx.notes.append(f"Gen/Src_idpool.v regenerated from the source ({'changed' if changed else 'unchanged'})")
    except Exception as e:   # SourceShapeError, SyntaxError, OSError: the model is no longer shown to be the source
        ctx.proof_breaks.append({"theorem": "source parser:Gen/Src_idpool.v (C09_mark_one_is_source / C09_mark_all_is_source "
                                            "/ C09_generate_is_source)", "where": "harness/props/c09_src.py", "log": str(e)})
        ctx.log(f"proof_broken theorem=C09_*_is_source (source parser: {e})")
    ctx.trusted.insert(4, "harness/props/c09_rm_src.py: parser of Scenario.remove_obstacle / remove_lanelet / "
                          "remove_traffic_sign / remove_traffic_light / remove_intersection / erase_lanelet_network / "
                          "replace_lanelet_network into the statement language of coq/Model/IdRemoveSrc.v, regenerated on "
                          "every run as coq/Gen/Src_idremove.v (fail-closed, on the normal form of vlib/astnorm.py); "
                          "C09_removals_are_source proves the parsed methods equal to exec o of Model/IdPool.v for every "
                          "removal operation and Replace (remove_hanging_lanelet_members: c09_hang_src.py) "
                          "(correspondence only); LaneletNetwork.remove_* is read as net_remove_* (C10 proves that from "
                          "lanelet.py)")
    from props import c09_rm_src
    try:
        changed = c09_rm_src.generate()
        ctx.notes.append(f"Gen/Src_idremove.v regenerated from the source ({'changed' if changed else 'unchanged'})")
    except Exception as e:
        ctx.proof_breaks.append({"theorem": "source parser:Gen/Src_idremove.v (C09_removals_are_source / "
                                            "C09_source_step_inv / C09_source_reachable_inv)",
                                 "where": "harness/props/c09_rm_src.py", "log": str(e)})
        ctx.log(f"proof_broken theorem=C09_removals_are_source (source parser: {e})")
    ctx.trusted.insert(5, "harness/props/c09_add_src.py: parser of Scenario.add_objects (chain of isinstance branches) and "
                          "_lanelet_network_object_ids into the statement language of coq/Model/IdAddSrc.v, regenerated on "
                          "every run as coq/Gen/Src_idadd.v (fail-closed); C09_add_is_source / "
                          "C09_every_operation_is_source prove the parsed program equal to add_one / exec o of "
                          "Model/IdPool.v; trusted: the nine argument classes are pairwise unrelated by inheritance, "
                          "LaneletNetwork.add_* = net_add_* (correspondence), lanelet_ids None = []")
    from props import c09_add_src
    try:
        changed = c09_add_src.generate()
        ctx.notes.append(f"Gen/Src_idadd.v regenerated from the source ({'changed' if changed else 'unchanged'})")
    except Exception as e:
        ctx.proof_breaks.append({"theorem": "source parser:Gen/Src_idadd.v (C09_add_is_source / "
                                            "C09_every_operation_is_source / C09_source_all_reachable_inv)",
                                 "where": "harness/props/c09_add_src.py", "log": str(e)})
        ctx.log(f"proof_broken theorem=C09_add_is_source (source parser: {e})")
    ctx.trusted.insert(6, "harness/props/c09_hang_src.py: parser of Scenario.remove_hanging_lanelet_members into the "
                          "selection language of coq/Model/IdHangSrc.v, regenerated on every run as coq/Gen/Src_idhang.v "
                          "(fail-closed); C09_remove_hanging_is_source / C09_remove_lanelet_fully_source prove it equal to "
                          "remove_hanging / remove_lanelets of Model/IdPool.v; trusted: set().union(*[...]) / set "
                          "difference / the network's element lists read as the model's list operations")
    from props import c09_hang_src
    try:
        changed = c09_hang_src.generate()
        ctx.notes.append(f"Gen/Src_idhang.v regenerated from the source ({'changed' if changed else 'unchanged'})")
    except Exception as e:
        ctx.proof_breaks.append({"theorem": "source parser:Gen/Src_idhang.v (C09_remove_hanging_is_source / "
                                            "C09_remove_lanelet_fully_source)",
                                 "where": "harness/props/c09_hang_src.py", "log": str(e)})
        ctx.log(f"proof_broken theorem=C09_remove_hanging_is_source (source parser: {e})")
    ctx.build_props(extra_targets=["Corr/C09.vo"])
    if ctx.tier == "thorough":
        ctx.coqchk()
    n = ctx.n(600, 8000)
    cases, traces = [], []
    for c in load_corpus(ctx.prop):
        f, t = execute({"universe": c["universe"], "ops": list(c["ops"])})
        if f:
            ctx.fail(f[0], f[1], c)
        cases.append(c)
        traces.append(t)
    for _ in range(n):
        case, failure, trace = gen_case(ctx.rng)
        nt = nontrivial(case, trace)
        for k, (_, out, _) in enumerate(trace):
            ctx.evaluations += 1
            kind = op_name(case["universe"], case["ops"][k]) + ("!" + out[1] if out[0] == "exc" else "")
            ctx.dist[kind] = ctx.dist.get(kind, 0) + 1
        if nt:
            ctx.distinct.add(sha(case))
            if len(ctx.samples) < 3 and len(case["ops"]) <= 14:
                ctx.samples.append(case)
        ctx.dist["sequences"] = ctx.dist.get("sequences", 0) + 1
        if case["wild"]:
            ctx.dist["wild sequences"] = ctx.dist.get("wild sequences", 0) + 1
        if failure:
            ctx.fail(failure[0], failure[1], shrink(case))
            continue  # the model describes the repaired code; a violating sequence is reported by the oracle
        cases.append(case)
        traces.append(trace)
    if not ctx.samples and cases:
        ctx.samples.append(cases[0])
    corr(ctx, traces, cases)
    return ctx.finish(RULE, assumptions=ASSUME)


def shrink(case):
    """drop operations while the oracle still reports the same signature"""
    base = oracle(case)
    if not base:
        return case
    ops = list(case["ops"])
    # cut after the failing step, then try to delete single operations
    for k in range(len(ops)):
        r = oracle({"universe": case["universe"], "ops": ops[:k + 1]})
        if r and r[0] == base[0]:
            ops = ops[:k + 1]
            break
    i = 0
    while i < len(ops) - 1:
        trial = ops[:i] + ops[i + 1:]
        r = oracle({"universe": case["universe"], "ops": trial})
        if r and r[0] == base[0]:
            ops = trial
        else:
            i += 1
    return {"universe": case["universe"], "ops": ops, "wild": False}
