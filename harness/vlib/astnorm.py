"""Semantics-preserving normalisation of Python function bodies, shared by the source-tie parsers (props/c08_src.py,
c10_src.py, c15_src.py, cache_src.py): the parsers recognise statement shapes, and a maintainer's harmless rewrite —
a helper method extracted, a guard clause instead of a nested if, a comprehension instead of a loop, a temporary
removed — should give the same shapes.  Every step keeps the meaning of the function:

  inline(fn, methods)     calls of plain methods of the same class (self.h(...), Cls.h(...), cls.h(...)) whose arguments
                          are names / constants / attribute chains are replaced by the method's body, parameters
                          substituted, locals renamed; as a statement, as `x = self.h(..)`, `return self.h(..)`,
                          `acc.append(self.h(..))`, or inside an expression when the body is a single `return <expr>`;
                          `setattr(self, "<const>", v)` becomes `self.<const> = v`; `if True / False:` is folded
  loops(fn)               `x = [E for v in L]` / `return f([E for v in L])` become an explicit loop with append
  tree(stmts)             statements after an `if` one of whose branches ends the function are moved into the branches
                          that go on (so guard clauses and nested ifs coincide); every path ends in an explicit return;
                          `if not C: A else: B` becomes `if C: B else: A` (De Morgan over `is None`, `in`, `not`);
                          `x = E; return x` becomes `return E`; `else: pass` disappears
  alpha(fn)               locals renamed v0, v1, .. in order of first occurrence

Fail-closed: anything unexpected raises NormError (the parser reports a broken obligation)."""
import ast
import copy


class NormError(Exception):
    pass


def _is_doc(s):
    return isinstance(s, ast.Expr) and isinstance(s.value, ast.Constant) and isinstance(s.value.value, str)


def body_of(fn):
    return [s for s in fn.body if not _is_doc(s)]


def simple_arg(a):
    while isinstance(a, ast.Attribute):
        a = a.value
    return isinstance(a, (ast.Name, ast.Constant))


# ------------------------------------------------------------------------------------ boolean simplification
def negate(e):
    """an expression equivalent to `not e` in a condition"""
    if isinstance(e, ast.UnaryOp) and isinstance(e.op, ast.Not):
        return e.operand
    if isinstance(e, ast.BoolOp):
        op = ast.And() if isinstance(e.op, ast.Or) else ast.Or()
        return ast.BoolOp(op=op, values=[negate(v) for v in e.values])
    if isinstance(e, ast.Compare) and len(e.ops) == 1:
        flip = {ast.Is: ast.IsNot, ast.IsNot: ast.Is, ast.In: ast.NotIn, ast.NotIn: ast.In, ast.Eq: ast.NotEq,
                ast.NotEq: ast.Eq}
        for k, v in flip.items():
            if isinstance(e.ops[0], k):
                return ast.Compare(left=e.left, ops=[v()], comparators=e.comparators)
    if isinstance(e, ast.Constant) and isinstance(e.value, bool):
        return ast.Constant(value=not e.value)
    return ast.UnaryOp(op=ast.Not(), operand=e)


class _Canon(ast.NodeTransformer):
    """`x in d.keys()` = `x in d`;  `list()` = `[]`"""

    def visit_Compare(self, n):
        self.generic_visit(n)
        if len(n.ops) == 1 and isinstance(n.ops[0], (ast.In, ast.NotIn)):
            c = n.comparators[0]
            if isinstance(c, ast.Call) and isinstance(c.func, ast.Attribute) and c.func.attr == "keys" \
                    and not c.args and not c.keywords:
                n.comparators = [c.func.value]
        return n

    def visit_Call(self, n):
        self.generic_visit(n)
        if isinstance(n.func, ast.Name) and n.func.id == "list" and not n.args and not n.keywords:
            return ast.List(elts=[], ctx=ast.Load())
        return n


def _blocks(stmts):
    """every statement list of a function body, outermost first"""
    yield stmts
    for st in stmts:
        for fld in ("body", "orelse"):
            sub = getattr(st, fld, None)
            if isinstance(sub, list) and sub and isinstance(sub[0], ast.stmt):
                yield from _blocks(sub)


def split_tuples(fn):
    """`x, y = (A, B)` with simple A, B that do not mention x, y  ->  `x = A; y = B`"""
    fn = copy.deepcopy(fn)
    for blk in _blocks(fn.body):
        i = 0
        while i < len(blk):
            st = blk[i]
            if isinstance(st, ast.Assign) and len(st.targets) == 1 and isinstance(st.targets[0], ast.Tuple) \
                    and isinstance(st.value, ast.Tuple) and len(st.value.elts) == len(st.targets[0].elts) \
                    and all(isinstance(t, ast.Name) for t in st.targets[0].elts) and all(simple_arg(v) for v in st.value.elts):
                names = {t.id for t in st.targets[0].elts}
                if not any(isinstance(n, ast.Name) and n.id in names for v in st.value.elts for n in ast.walk(v)):
                    blk[i:i + 1] = [ast.Assign(targets=[ast.Name(id=t.id, ctx=ast.Store())], value=v)
                                    for t, v in zip(st.targets[0].elts, st.value.elts)]
                    i += len(names)
                    continue
            i += 1
    return fn


def aliases(fn):
    """`x = a.b.c` (x assigned once and not a parameter; a.b.c, its prefixes and its root name not assigned or deleted
    in any statement that can run after the alias was made): x is replaced by a.b.c"""
    fn = split_tuples(fn)
    order, pos = [], {}

    def number(stmts, loops_):
        for st in stmts:
            pos[id(st)] = (len(order), tuple(loops_))
            order.append(st)
            inner = loops_ + [id(st)] if isinstance(st, (ast.For, ast.While)) else loops_
            for fld in ("body", "orelse"):
                sub = getattr(st, fld, None)
                if isinstance(sub, list) and sub and isinstance(sub[0], ast.stmt):
                    number(sub, inner)
    number(fn.body, [])
    stores = {}
    for n in ast.walk(fn):
        if isinstance(n, ast.Name) and isinstance(n.ctx, ast.Store):
            stores[n.id] = stores.get(n.id, 0) + 1

    def header_nodes(st):
        """the nodes of a statement without its nested blocks"""
        skip = set()
        for fld in ("body", "orelse"):
            sub = getattr(st, fld, None)
            if isinstance(sub, list) and sub and isinstance(sub[0], ast.stmt):
                for x in sub:
                    skip |= {id(n) for n in ast.walk(x)}
        return [n for n in ast.walk(st) if id(n) not in skip]

    def stored_texts(st):
        out = set()
        for n in header_nodes(st):
            if isinstance(n, (ast.Attribute, ast.Name, ast.Subscript)) and isinstance(n.ctx, (ast.Store, ast.Del)):
                out.add(ast.unparse(n))
        return out
    m = {}
    for st in order:
        if isinstance(st, ast.Assign) and len(st.targets) == 1 and isinstance(st.targets[0], ast.Name) \
                and isinstance(st.value, ast.Attribute) and simple_arg(st.value) and stores.get(st.targets[0].id) == 1 \
                and not any(a.arg == st.targets[0].id for a in fn.args.args):
            chain = ast.unparse(st.value)
            prefixes = {chain}
            v = st.value
            while isinstance(v, ast.Attribute):
                v = v.value
                prefixes.add(ast.unparse(v))
            k, loops_ = pos[id(st)]
            bad = False
            for other in order:
                ko, lo = pos[id(other)]
                later = ko > k or (loops_ and any(x in lo for x in loops_))      # afterwards, or in an enclosing loop
                if other is not st and later and stored_texts(other) & prefixes:
                    bad = True
            if not bad:
                m[st.targets[0].id] = st.value
    if not m:
        return fn

    class T(ast.NodeTransformer):
        def visit_Assign(self, n):
            if len(n.targets) == 1 and isinstance(n.targets[0], ast.Name) and n.targets[0].id in m:
                return None
            self.generic_visit(n)
            return n

        def visit_Name(self, n):
            if n.id in m and isinstance(n.ctx, ast.Load):
                return copy.deepcopy(m[n.id])
            return n
    return T().visit(fn)


def temps(fn):
    """`x = E` immediately followed by the statement holding the only use of x, whose other operands are simple:
    E is moved to the use"""
    fn = copy.deepcopy(fn)
    changed = True
    while changed:
        changed = False
        stores, loads = {}, {}
        for n in ast.walk(fn):
            if isinstance(n, ast.Name):
                d = stores if isinstance(n.ctx, ast.Store) else loads
                d[n.id] = d.get(n.id, 0) + 1
        for blk in _blocks(fn.body):
            for i in range(len(blk) - 1):
                st, nxt = blk[i], blk[i + 1]
                if not (isinstance(st, ast.Assign) and len(st.targets) == 1 and isinstance(st.targets[0], ast.Name)):
                    continue
                x = st.targets[0].id
                if stores.get(x) != 1 or loads.get(x) != 1 or any(a.arg == x for a in fn.args.args):
                    continue
                if isinstance(nxt, ast.If):
                    head = nxt.test
                elif isinstance(nxt, (ast.Assign, ast.Expr, ast.Return)) and nxt.value is not None:
                    head = nxt.value
                else:
                    continue
                uses = [n for n in ast.walk(head) if isinstance(n, ast.Name) and n.id == x]
                if len(uses) != 1:
                    continue
                # everything else evaluated in the head must be free of effects: names, constants, attribute chains
                ok = True
                for n in ast.walk(head):
                    if isinstance(n, ast.Call) and not all(simple_arg(a) for a in n.args if not (
                            isinstance(a, ast.Name) and a.id == x)):
                        ok = False
                    if isinstance(n, ast.Call) and not simple_arg(n.func):
                        ok = False
                    if isinstance(n, (ast.Await, ast.Yield, ast.NamedExpr, ast.Lambda)):
                        ok = False
                if isinstance(nxt, ast.Assign) and not all(simple_arg(t) for t in nxt.targets):
                    ok = False
                if not ok:
                    continue

                class R(ast.NodeTransformer):
                    def visit_Name(self, n):
                        return copy.deepcopy(st.value) if n.id == x and isinstance(n.ctx, ast.Load) else n
                if isinstance(nxt, ast.If):
                    nxt.test = R().visit(nxt.test)
                else:
                    nxt.value = R().visit(nxt.value)
                del blk[i]
                changed = True
                break
            if changed:
                break
    return fn


def simp(e):
    """push negations inwards"""
    if isinstance(e, ast.UnaryOp) and isinstance(e.op, ast.Not):
        inner = simp(e.operand)
        n = negate(inner)
        if isinstance(n, ast.UnaryOp) and isinstance(n.op, ast.Not):
            return n
        return simp(n) if isinstance(n, ast.BoolOp) else n
    if isinstance(e, ast.BoolOp):
        return ast.BoolOp(op=e.op, values=[simp(v) for v in e.values])
    return e


def is_negative(e):
    """conditions written negatively (so that the positive form is the canonical one)"""
    if isinstance(e, ast.UnaryOp) and isinstance(e.op, ast.Not):
        return True
    if isinstance(e, ast.Compare) and len(e.ops) == 1 and isinstance(e.ops[0], (ast.NotIn,)):
        return True
    return False


# ------------------------------------------------------------------------------------ decision tree
def terminates(stmts):
    if not stmts:
        return False
    s = stmts[-1]
    if isinstance(s, (ast.Return, ast.Raise)):
        return True
    if isinstance(s, ast.If):
        return terminates(s.body) and terminates(s.orelse)
    return False


def _trivial(stmts, top=True):
    """a branch that does nothing (at function level: nothing but end the function with None)"""
    return all(isinstance(s, ast.Pass) or (top and isinstance(s, ast.Return) and (s.value is None or (
        isinstance(s.value, ast.Constant) and s.value.value is None))) for s in stmts)


def tree(stmts, top=True):
    """see module docstring; returns a new statement list"""
    out = []
    stmts = [s for s in stmts if not isinstance(s, ast.Pass)]
    for i, s in enumerate(stmts):
        if isinstance(s, ast.If):
            rest = stmts[i + 1:]
            test = simp(s.test)
            body, orelse = list(s.body), list(s.orelse)
            if isinstance(test, ast.Constant) and isinstance(test.value, bool):
                return out + tree((body if test.value else orelse) + rest, top)
            if rest and any(isinstance(n, (ast.Return, ast.Raise)) for b in body + orelse for n in ast.walk(b)):
                if not terminates(body):
                    body = body + rest
                if not terminates(orelse):
                    orelse = orelse + rest
                rest = []
            body, orelse = tree(body, top), tree(orelse, top)
            tb, to = _trivial(body, top), _trivial(orelse, top)
            if (tb and not to) or (not tb and not to and is_negative(test)):
                test, body, orelse = simp(negate(test)), orelse, body
            if _trivial(orelse, top) and not rest:
                orelse = []           # nothing follows: an else that only ends the function says nothing
            elif _trivial(orelse, top) and all(isinstance(x, ast.Pass) for x in orelse):
                orelse = []
            out.append(ast.If(test=test, body=body or [ast.Pass()], orelse=orelse))
            return out + tree(rest, top) if rest else out
        if isinstance(s, (ast.For, ast.While)):
            s = copy.copy(s)
            s.body = tree(s.body, False) or [ast.Pass()]
            out.append(s)
        else:
            out.append(s)
    # x = E; return x  ->  return E
    if len(out) >= 2 and isinstance(out[-1], ast.Return) and isinstance(out[-1].value, ast.Name) \
            and isinstance(out[-2], ast.Assign) and len(out[-2].targets) == 1 \
            and isinstance(out[-2].targets[0], ast.Name) and out[-2].targets[0].id == out[-1].value.id:
        out = out[:-2] + [ast.Return(value=out[-2].value)]
    return out


def drop_final_none(stmts):
    """a trailing bare `return` / `return None` says nothing"""
    while stmts and isinstance(stmts[-1], ast.Return) and (stmts[-1].value is None or (
            isinstance(stmts[-1].value, ast.Constant) and stmts[-1].value.value is None)):
        stmts = stmts[:-1]
    for s in stmts:
        if isinstance(s, ast.If):
            s.body = drop_final_none(s.body) or [ast.Pass()]
            s.orelse = drop_final_none(s.orelse)
    return stmts


# ------------------------------------------------------------------------------------ comprehensions -> loops
class _Counter:
    n = 0


def loops(stmts):
    out = []
    for s in stmts:
        comp = None
        for n in ast.walk(s):
            if isinstance(n, ast.ListComp) and len(n.generators) == 1 and not n.generators[0].ifs:
                comp = n
                break
        if comp is not None and isinstance(s, (ast.Assign, ast.Return, ast.Expr)):
            _Counter.n += 1
            acc = f"_acc{_Counter.n}"
            direct = isinstance(s, ast.Assign) and s.value is comp and len(s.targets) == 1 \
                and isinstance(s.targets[0], ast.Name)
            if direct:
                acc = s.targets[0].id
            g = comp.generators[0]
            out.append(ast.Assign(targets=[ast.Name(id=acc, ctx=ast.Store())], value=ast.List(elts=[], ctx=ast.Load())))
            out.append(ast.For(target=g.target, iter=g.iter, orelse=[], body=[ast.Expr(value=ast.Call(
                func=ast.Attribute(value=ast.Name(id=acc, ctx=ast.Load()), attr="append", ctx=ast.Load()),
                args=[comp.elt], keywords=[]))]))

            class R(ast.NodeTransformer):
                def visit_ListComp(self, n):
                    return ast.Name(id=acc, ctx=ast.Load()) if n is comp else n
            if not direct:
                out.append(R().visit(s))
        elif isinstance(s, (ast.For, ast.While, ast.If)):
            s = copy.copy(s)
            s.body = loops(s.body)
            s.orelse = loops(s.orelse)
            out.append(s)
        else:
            out.append(s)
    return out


# ------------------------------------------------------------------------------------ inlining
class _Subst(ast.NodeTransformer):
    def __init__(self, mapping):
        self.m = mapping

    def visit_Name(self, n):
        if n.id in self.m:
            return copy.deepcopy(self.m[n.id])
        return n


def _locals_of(fn):
    names = set()
    for n in ast.walk(fn):
        if isinstance(n, ast.Name) and isinstance(n.ctx, ast.Store):
            names.add(n.id)
    return names - {a.arg for a in fn.args.args}


def _callee(call, self_names, methods):
    f = call.func
    if isinstance(f, ast.Attribute) and isinstance(f.value, ast.Name) and f.value.id in self_names and f.attr in methods:
        return methods[f.attr]
    return None


def _bind(helper, call, self_expr, tag):
    """parameter -> argument expression, helper locals renamed"""
    decs = [ast.unparse(d) for d in helper.decorator_list]
    params = [a.arg for a in helper.args.args]
    if helper.args.vararg or helper.args.kwarg or helper.args.kwonlyargs:
        raise NormError(f"helper {helper.name}: argument form")
    m = {}
    if "staticmethod" not in decs:
        if not params:
            raise NormError(f"helper {helper.name} without self")
        m[params[0]] = self_expr if "classmethod" not in decs else ast.Name(id="type(self)", ctx=ast.Load())
        params = params[1:]
    args = list(call.args)
    kw = {k.arg: k.value for k in call.keywords}
    defaults = helper.args.defaults
    for i, p in enumerate(params):
        if i < len(args):
            v = args[i]
        elif p in kw:
            v = kw[p]
        else:
            j = i - (len(params) - len(defaults))
            if j < 0:
                raise NormError(f"helper {helper.name}: missing argument {p}")
            v = defaults[j]
        if not simple_arg(v):
            raise NormError(f"helper {helper.name}: argument {ast.unparse(v)} is not a name / constant / attribute")
        m[p] = v
    for loc in _locals_of(helper):
        m[loc] = ast.Name(id=f"{loc}_{tag}", ctx=ast.Load())
    return m


def _store_ctx(stmts):
    """after substitution the targets of assignments must carry Store contexts again (outermost node only)"""
    def mark(t):
        if isinstance(t, (ast.Name, ast.Attribute, ast.Subscript)):
            t.ctx = ast.Store()
        elif isinstance(t, (ast.Tuple, ast.List)):
            t.ctx = ast.Store()
            for e in t.elts:
                mark(e)
    for s in stmts:
        for n in ast.walk(s):
            if isinstance(n, (ast.Assign, ast.AnnAssign, ast.AugAssign, ast.For)):
                for t in (n.targets if isinstance(n, ast.Assign) else [n.target]):
                    mark(t)
            elif isinstance(n, ast.Delete):
                for t in n.targets:
                    if isinstance(t, (ast.Name, ast.Attribute, ast.Subscript)):
                        t.ctx = ast.Del()
    return stmts


def inline(fn, methods, depth=0, keep=()):
    """-> new FunctionDef with calls of the class's plain methods inlined (see module docstring); methods named in keep
    and calls whose arguments are not simple stay calls"""
    if depth > 5:
        raise NormError("helper methods nested too deeply")
    self_names = {fn.args.args[0].arg} if fn.args.args else set()
    self_names |= {"cls"} if "classmethod" in [ast.unparse(d) for d in fn.decorator_list] else set()
    self_expr = ast.Name(id=fn.args.args[0].arg, ctx=ast.Load()) if fn.args.args else None
    counter = [0]
    own = {k: v for k, v in methods.items() if k != fn.name and k not in keep}

    def helper_body(call):
        h = _callee(call, self_names, own)
        if h is None or not all(simple_arg(a) for a in list(call.args) + [k.value for k in call.keywords]):
            return None
        counter[0] += 1
        h2 = inline(h, methods, depth + 1, keep)
        m = _bind(h2, call, self_expr, f"h{depth}{counter[0]}")
        body = [_Subst(m).visit(copy.deepcopy(s)) for s in body_of(h2)]
        return _store_ctx(body)

    def expr_inline(e):
        """single-return helpers inside expressions"""
        class T(ast.NodeTransformer):
            def visit_Call(self, n):
                self.generic_visit(n)
                h = _callee(n, self_names, own)
                if h is not None and all(simple_arg(a) for a in list(n.args) + [k.value for k in n.keywords]):
                    b = body_of(inline(h, methods, depth + 1, keep))
                    if len(b) == 1 and isinstance(b[0], ast.Return) and b[0].value is not None:
                        counter[0] += 1
                        m = _bind(h, n, self_expr, f"h{depth}{counter[0]}")
                        return _Subst(m).visit(copy.deepcopy(b[0].value))
                return n
        return T().visit(e)

    def value_inline(call, finish):
        """body of a value-returning helper with every `return E` (all in tail position once the body is a decision
        tree) turned into finish(E); None if not applicable"""
        body = helper_body(call)
        if body is None or not body:
            return None
        body = tree(body)

        def tail(stmts):
            if not stmts:
                raise NormError("helper path without a return value")
            for x in stmts[:-1]:
                if any(isinstance(n, ast.Return) for n in ast.walk(x)):
                    raise NormError("helper returns from a non-tail position")
            last = stmts[-1]
            if isinstance(last, ast.Return):
                if last.value is None:
                    raise NormError("helper path without a return value")
                return stmts[:-1] + [finish(last.value)]
            if isinstance(last, ast.Raise):
                return stmts
            if isinstance(last, ast.If):
                n = copy.copy(last)
                n.body = tail(last.body)
                n.orelse = tail(last.orelse) if last.orelse else tail([])
                return stmts[:-1] + [n]
            raise NormError("helper path without a return value")
        try:
            return stmts_inline(tail(body))
        except NormError:
            return None

    def stmts_inline(stmts):
        out = []
        for s in stmts:
            if isinstance(s, (ast.If, ast.For, ast.While)):
                s = copy.copy(s)
                if isinstance(s, ast.If):
                    s.test = expr_inline(s.test)
                s.body = stmts_inline(s.body)
                s.orelse = stmts_inline(s.orelse)
                out.append(s)
                continue
            # setattr(self, "<const>", v)
            if isinstance(s, ast.Expr) and isinstance(s.value, ast.Call) and ast.unparse(s.value.func) == "setattr" \
                    and len(s.value.args) == 3 and isinstance(s.value.args[0], ast.Name) \
                    and s.value.args[0].id in self_names and isinstance(s.value.args[1], ast.Constant) \
                    and isinstance(s.value.args[1].value, str):
                out.append(ast.Assign(targets=[ast.Attribute(value=s.value.args[0], attr=s.value.args[1].value,
                                                             ctx=ast.Store())], value=s.value.args[2]))
                continue
            done = None
            if isinstance(s, ast.Expr) and isinstance(s.value, ast.Call):
                c = s.value
                body = helper_body(c)
                if body is not None:
                    body = tree(body)
                    if not any(isinstance(n, ast.Return) and n.value is not None for x in body for n in ast.walk(x)):
                        # a procedure: its (bare) returns only end the helper; keep them only if nothing follows
                        if any(isinstance(n, ast.Return) for x in body for n in ast.walk(x)):
                            body = drop_final_none(body)
                            if any(isinstance(n, ast.Return) for x in body for n in ast.walk(x)):
                                raise NormError(f"helper with an early return called as a statement: {ast.unparse(c)[:80]}")
                        done = stmts_inline(body)
                elif isinstance(c.func, ast.Attribute) and c.func.attr == "append" and len(c.args) == 1 \
                        and isinstance(c.args[0], ast.Call):
                    done = value_inline(c.args[0], lambda e: ast.Expr(value=ast.Call(func=c.func, args=[e], keywords=[])))
            elif isinstance(s, ast.Assign) and isinstance(s.value, ast.Call):
                done = value_inline(s.value, lambda e: ast.Assign(targets=s.targets, value=e))
            elif isinstance(s, ast.Return) and isinstance(s.value, ast.Call):
                done = value_inline(s.value, lambda e: ast.Return(value=e))
            if done is not None:
                out.extend(done)
                continue
            s = copy.deepcopy(s)
            for fld in ("value", "test"):
                if getattr(s, fld, None) is not None and isinstance(getattr(s, fld), ast.AST):
                    setattr(s, fld, expr_inline(getattr(s, fld)))
            out.append(s)
        return out

    new = copy.copy(fn)
    new.body = stmts_inline(loops(body_of(fn)))
    return new


# ------------------------------------------------------------------------------------ alpha renaming, text
class _Alpha(ast.NodeTransformer):
    def __init__(self, names):
        self.names, self.m = names, {}

    def _n(self, x):
        return self.m.setdefault(x, f"v{len(self.m)}") if x in self.names else x

    def visit_Name(self, n):
        return ast.Name(id=self._n(n.id), ctx=n.ctx)

    def visit_arg(self, n):
        return ast.arg(arg=self._n(n.arg), annotation=None)


def alpha_text(fn):
    fn = copy.deepcopy(fn)
    fn.returns, fn.decorator_list = None, []
    names = {a.arg for a in fn.args.args}
    for n in ast.walk(fn):
        if isinstance(n, ast.Name) and isinstance(n.ctx, ast.Store):
            names.add(n.id)
    fn = _Alpha(names).visit(fn)
    ast.fix_missing_locations(fn)
    return ast.unparse(fn)


def normal(fn, methods=None, keep=()):
    """inline + loops + decision tree, as a new FunctionDef"""
    new = inline(fn, methods or {}, 0, keep)
    new = _Canon().visit(temps(aliases(copy.deepcopy(new))))
    new.body = drop_final_none(tree(new.body)) or [ast.Pass()]
    ast.fix_missing_locations(new)
    return new


def class_methods(tree_, cls):
    """plain methods (no decorator, staticmethod, classmethod) of a class, by name"""
    for c in tree_.body:
        if isinstance(c, ast.ClassDef) and c.name == cls:
            out = {}
            for f in c.body:
                if isinstance(f, ast.FunctionDef):
                    decs = [ast.unparse(d) for d in f.decorator_list]
                    if not decs or decs in (["staticmethod"], ["classmethod"]):
                        out[f.name] = f
            return out
    raise NormError(f"class {cls} not found")
