"""Shared generators of commonroad objects (through the public constructors only) and a generic
structural snapshot (raw stored data, caches excluded).  Every random choice comes from the rng given."""
import enum
import math

import numpy as np

from commonroad.common.util import AngleInterval, Interval
from commonroad.geometry.shape import Circle, Polygon, Rectangle, ShapeGroup
from commonroad.planning.goal import GoalRegion
from commonroad.planning.planning_problem import PlanningProblem, PlanningProblemSet
from commonroad.prediction.prediction import Occupancy, SetBasedPrediction, TrajectoryPrediction
from commonroad.scenario.intersection import Intersection, IntersectionIncomingElement
from commonroad.scenario.lanelet import Lanelet, LaneletNetwork, LaneletType, LineMarking, RoadUser, StopLine
from commonroad.scenario.obstacle import (DynamicObstacle, EnvironmentObstacle, ObstacleType, PhantomObstacle,
                                          StaticObstacle)
from commonroad.scenario.scenario import Scenario, ScenarioID
from commonroad.scenario.state import (CustomState, InitialState, KSState, PMState, STState, SignalState)
from commonroad.scenario.traffic_light import (TrafficLight, TrafficLightCycle, TrafficLightCycleElement,
                                               TrafficLightDirection, TrafficLightState)
from commonroad.scenario.traffic_sign import TrafficSign, TrafficSignElement, TrafficSignIDGermany, TrafficSignIDZamunda
from commonroad.scenario.trajectory import Trajectory

# fields that hold derived / cached data, never primary data
CACHE_FIELDS = {"_strtee", "_buffered_polygons", "_lanelet_id_index_by_id", "_polygon", "_distance",
                "_inner_distance", "_shapely_polygon", "_shapely_object", "_cycle_init_timesteps", "occupancy_set",
                "_initial_occupancy_shape", "_min", "_max", "_shapely_circle", "_is_static", "_vertices_closed",
                "_final_time_step"}


def snapshot(obj, skip=CACHE_FIELDS, _depth=0):
    """JSON-able structural snapshot of the raw stored data of an object graph (caches excluded).
    sets -> sorted lists, numpy -> nested lists of floats, enums -> names, objects -> dict with __class__."""
    if _depth > 40:
        return "<deep>"
    if obj is None or isinstance(obj, (bool, str)):
        return obj
    if isinstance(obj, (int, np.integer)):
        return int(obj)
    if isinstance(obj, (float, np.floating)):
        return float(obj)
    if isinstance(obj, enum.Enum):
        return f"{type(obj).__name__}.{obj.name}"
    if isinstance(obj, np.ndarray):
        return ["nd"] + obj.tolist()
    if isinstance(obj, (list, tuple)):
        return [snapshot(x, skip, _depth + 1) for x in obj]
    if isinstance(obj, (set, frozenset)):
        items = [snapshot(x, skip, _depth + 1) for x in obj]
        return ["set"] + sorted(items, key=repr)
    if isinstance(obj, dict):
        items = [(snapshot(k, skip, _depth + 1), snapshot(v, skip, _depth + 1)) for k, v in obj.items()]
        return {"__dict__": sorted(([k, v] for k, v in items), key=lambda kv: repr(kv[0])),
                "__type__": type(obj).__name__}
    d = {}
    if hasattr(obj, "__dict__"):
        d.update(vars(obj))
    for cls in type(obj).__mro__:
        for s in getattr(cls, "__slots__", ()):
            if hasattr(obj, s):
                d[s] = getattr(obj, s)
    if not d and not hasattr(obj, "__dict__"):
        return repr(obj)
    out = {"__class__": type(obj).__name__}
    for k in sorted(d):
        if k in skip or k.startswith("__"):
            continue
        out[k.lstrip("_")] = snapshot(d[k], skip, _depth + 1)
    return out


def diff_snap(a, b, path="", tol=0.0, out=None, limit=8):
    """list of paths where two snapshots differ (numbers within tol count as equal)"""
    out = [] if out is None else out
    if len(out) >= limit:
        return out
    if isinstance(a, float) or isinstance(b, float):
        if isinstance(a, (int, float)) and isinstance(b, (int, float)) and not isinstance(a, bool) \
                and not isinstance(b, bool):
            if a == b or abs(a - b) <= tol or (math.isnan(a) and math.isnan(b)):
                return out
        out.append(f"{path}: {a!r} != {b!r}")
        return out
    if type(a) is not type(b):
        out.append(f"{path}: {str(a)[:80]!r} != {str(b)[:80]!r}")
        return out
    if isinstance(a, dict):
        for k in sorted(set(a) | set(b)):
            if k not in a or k not in b:
                out.append(f"{path}.{k}: only on one side")
            else:
                diff_snap(a[k], b[k], f"{path}.{k}", tol, out, limit)
        return out
    if isinstance(a, list):
        if len(a) != len(b):
            out.append(f"{path}: length {len(a)} != {len(b)}")
            return out
        for i, (x, y) in enumerate(zip(a, b)):
            diff_snap(x, y, f"{path}[{i}]", tol, out, limit)
        return out
    if a != b:
        out.append(f"{path}: {a!r} != {b!r}")
    return out


# ------------------------------------------------------------------------------------------ geometry
def rnd(rng, lo, hi, nd=3):
    return round(rng.uniform(lo, hi), nd)


def rand_shape(rng, kinds=("rect", "circ", "poly", "group"), centred=True, scale=1.0):
    k = rng.choice(kinds)
    c = np.array([0.0, 0.0]) if centred else np.array([rnd(rng, -5, 5), rnd(rng, -5, 5)])
    if k == "rect":
        return Rectangle(rnd(rng, 0.5, 6) * scale, rnd(rng, 0.5, 3) * scale, c,
                         0.0 if centred else rnd(rng, -3, 3))
    if k == "circ":
        return Circle(rnd(rng, 0.3, 3) * scale, c)
    if k == "poly":
        n = rng.randint(3, 6)
        angs = sorted(rng.uniform(0, 2 * math.pi) for _ in range(n))
        while min((angs[(i + 1) % n] - angs[i]) % (2 * math.pi) for i in range(n)) < 0.3:
            angs = sorted(rng.uniform(0, 2 * math.pi) for _ in range(n))
        r = [rnd(rng, 1.0, 3.0) * scale for _ in range(n)]
        return Polygon(np.array([[c[0] + ri * math.cos(a), c[1] + ri * math.sin(a)] for ri, a in zip(r, angs)]))
    sub = tuple(x for x in kinds if x != "group") or ("rect",)
    return ShapeGroup([rand_shape(rng, sub, False, scale) for _ in range(rng.randint(1, 3))])


def strip_lanelets(rng, n_lanes=2, n_seg=3, first_id=1, width=3.0, seg_len=10.0, curved=None, origin=(0.0, 0.0),
                   pts_per_seg=None):
    """a road of n_lanes parallel lanes cut into n_seg consecutive lanelets; neighbouring lanelets share
    boundary vertices exactly.  Returns list of Lanelet with pred/succ/adjacency set."""
    curved = rng.random() < 0.5 if curved is None else curved
    pts = pts_per_seg or rng.randint(2, 5)
    kappa = rng.choice([0.01, 0.02, -0.015]) if curved else 0.0
    total = n_seg * (pts - 1) + 1
    # centre reference line of the road, arc-length parametrised
    ref, th = [], []
    x, y, a = origin[0], origin[1], 0.0
    ds = seg_len / (pts - 1)
    for i in range(total):
        ref.append((x, y))
        th.append(a)
        x, y, a = x + ds * math.cos(a), y + ds * math.sin(a), a + kappa * ds
    ids = [[first_id + s * n_lanes + l for l in range(n_lanes)] for s in range(n_seg)]
    out = []
    for s in range(n_seg):
        idx = range(s * (pts - 1), (s + 1) * (pts - 1) + 1)
        for l in range(n_lanes):
            def off(d):
                return np.array([[round(ref[i][0] - d * math.sin(th[i]), 6), round(ref[i][1] + d * math.cos(th[i]), 6)]
                                 for i in idx])
            right, left = off(l * width), off((l + 1) * width)
            center = (left + right) / 2.0
            lt = {rng.choice(list(LaneletType))} | ({LaneletType.URBAN} if rng.random() < 0.5 else set())
            out.append(Lanelet(
                left, center, right, ids[s][l],
                predecessor=[ids[s - 1][l]] if s > 0 else [],
                successor=[ids[s + 1][l]] if s + 1 < n_seg else [],
                adjacent_left=ids[s][l + 1] if l + 1 < n_lanes else None,
                adjacent_left_same_direction=True if l + 1 < n_lanes else None,
                adjacent_right=ids[s][l - 1] if l > 0 else None,
                adjacent_right_same_direction=True if l > 0 else None,
                line_marking_left_vertices=rng.choice(list(LineMarking)),
                line_marking_right_vertices=rng.choice(list(LineMarking)),
                lanelet_type=lt,
                user_one_way={rng.choice(list(RoadUser))} if rng.random() < 0.6 else None,
                user_bidirectional={rng.choice(list(RoadUser))} if rng.random() < 0.3 else None))
    return out


def rand_sign(rng, sid, pos=None, first=None):
    el = []
    for _ in range(rng.randint(1, 2)):
        e = rng.choice([TrafficSignIDGermany.MAX_SPEED, TrafficSignIDGermany.STOP, TrafficSignIDGermany.YIELD,
                        TrafficSignIDZamunda.MAX_SPEED, TrafficSignIDGermany.PRIORITY])
        el.append(TrafficSignElement(e, [str(rng.choice([30, 50, 13.9]))] if "MAX_SPEED" in e.name else []))
    pos = np.array([rnd(rng, -20, 40), rnd(rng, -10, 10)]) if pos is None else pos
    return TrafficSign(sid, el, first if first is not None else set(), pos, virtual=rng.random() < 0.4)


def rand_light(rng, lid, pos=None):
    n = rng.randint(1, 4)
    cyc = [TrafficLightCycleElement(rng.choice(list(TrafficLightState)), rng.randint(1, 20)) for _ in range(n)]
    pos = np.array([rnd(rng, -20, 40), rnd(rng, -10, 10)]) if pos is None else pos
    return TrafficLight(lid, pos, TrafficLightCycle(cyc, time_offset=rng.choice([0, 0, 3, 7]),
                                                    active=rng.random() < 0.8),
                        active=rng.random() < 0.8, direction=rng.choice(list(TrafficLightDirection)))


def rand_network(rng, n_lanes=None, n_seg=None, with_extras=True, first_id=1):
    """LaneletNetwork with signs, lights, stop lines and one intersection; all references resolve"""
    n_lanes = n_lanes or rng.randint(1, 3)
    n_seg = n_seg or rng.randint(2, 4)
    lls = strip_lanelets(rng, n_lanes, n_seg, first_id)
    signs, lights, inters = [], [], []
    nid = first_id + 100
    if with_extras:
        for _ in range(rng.randint(0, 3)):
            users = rng.sample(lls, rng.randint(1, min(2, len(lls))))
            s = rand_sign(rng, nid, first={u.lanelet_id for u in users} if rng.random() < 0.5 else set())
            nid += 1
            signs.append(s)
            for u in users:
                u.add_traffic_sign_to_lanelet(s.traffic_sign_id)
        for _ in range(rng.randint(0, 2)):
            users = rng.sample(lls, rng.randint(1, min(2, len(lls))))
            t = rand_light(rng, nid)
            nid += 1
            lights.append(t)
            for u in users:
                u.add_traffic_light_to_lanelet(t.traffic_light_id)
        for u in lls:
            if rng.random() < 0.3:
                sr = set(rng.sample(sorted(u.traffic_signs), min(1, len(u.traffic_signs)))) if u.traffic_signs else None
                lr = set(rng.sample(sorted(u.traffic_lights), min(1, len(u.traffic_lights)))) \
                    if u.traffic_lights else None
                u.stop_line = StopLine(u.left_vertices[-1].copy(), u.right_vertices[-1].copy(),
                                       rng.choice(list(LineMarking)), sr or None, lr or None)
        if n_seg >= 2 and rng.random() < 0.7:
            incs = []
            for l in range(n_lanes):
                inc_l = lls[l]  # first segment, lane l
                succ = set(inc_l.successor)
                incs.append(IntersectionIncomingElement(nid, {inc_l.lanelet_id}, successors_straight=succ,
                                                        successors_right=set(), successors_left=set(),
                                                        left_of=incs[-1].incoming_id if incs and rng.random() < 0.5
                                                        else None))
                nid += 1
            inters.append(Intersection(nid, incs, crossings={lls[-1].lanelet_id} if rng.random() < 0.4 else set()))
            nid += 1
    net = LaneletNetwork()
    for s in signs:
        net.add_traffic_sign(s, set())
    for t in lights:
        net.add_traffic_light(t, set())
    for la in lls:
        net.add_lanelet(la)
    for i in inters:
        net.add_intersection(i)
    return net


# ------------------------------------------------------------------------------------------ states / obstacles
def rand_state(rng, cls=None, t=0, uncertain=False, pos=None):
    cls = cls or rng.choice([KSState, PMState, STState, InitialState, CustomState])
    pos = np.array([rnd(rng, -5, 35), rnd(rng, -3, 9)]) if pos is None else pos
    if uncertain and rng.random() < 0.5:
        pos = rand_shape(rng, ("rect", "circ", "poly"), False)
    orient = rnd(rng, -3.1, 3.1)
    if uncertain and rng.random() < 0.5:
        orient = AngleInterval(orient - 0.2, orient + 0.2)
    vel = rnd(rng, 0, 20)
    if uncertain and rng.random() < 0.3:
        vel = Interval(vel, vel + 2.0)
    if cls is PMState:
        return PMState(time_step=t, position=pos, velocity=vel if not isinstance(vel, Interval) else 3.0,
                       velocity_y=rnd(rng, -3, 3))
    if cls is KSState:
        return KSState(time_step=t, position=pos, orientation=orient, velocity=vel, steering_angle=rnd(rng, -0.5, 0.5))
    if cls is STState:
        return STState(time_step=t, position=pos, orientation=orient, velocity=vel, steering_angle=rnd(rng, -0.5, 0.5),
                       yaw_rate=rnd(rng, -1, 1), slip_angle=rnd(rng, -0.2, 0.2))
    if cls is InitialState:
        return InitialState(time_step=t, position=pos, orientation=orient, velocity=vel, acceleration=rnd(rng, -2, 2),
                            yaw_rate=rnd(rng, -1, 1), slip_angle=rnd(rng, -0.2, 0.2))
    return CustomState(time_step=t, position=pos, orientation=orient, velocity=vel)


def rand_signal(rng, t):
    return SignalState(time_step=t, horn=rng.random() < 0.5, indicator_left=rng.random() < 0.5,
                       indicator_right=rng.random() < 0.5, braking_lights=rng.random() < 0.5,
                       hazard_warning_lights=rng.random() < 0.5, flashing_blue_lights=rng.random() < 0.5)


def rand_trajectory(rng, t0, n, cls=None, uncertain=False):
    cls = cls or rng.choice([KSState, PMState, STState, CustomState])
    x, y = rnd(rng, -5, 10), rnd(rng, 0, 6)
    states = []
    for i in range(n):
        states.append(rand_state(rng, cls, t0 + i, uncertain, np.array([round(x + 1.5 * i, 3), y])))
    return Trajectory(t0, states)


def rand_obstacle(rng, oid, role=None, shape_kinds=("rect", "circ", "poly"), uncertain=False, t0=None,
                  interval_occ=False):
    role = role or rng.choice(["static", "dynamic", "dynamic", "dynamic_set", "dynamic_none", "env", "phantom"])
    t0 = rng.choice([0, 0, 2]) if t0 is None else t0
    shape = rand_shape(rng, shape_kinds)
    otype = rng.choice([ObstacleType.CAR, ObstacleType.TRUCK, ObstacleType.BICYCLE, ObstacleType.PEDESTRIAN])
    init = rand_state(rng, InitialState, t0, uncertain)
    if role == "static":
        return StaticObstacle(oid, rng.choice([ObstacleType.PARKED_VEHICLE, ObstacleType.CONSTRUCTION_ZONE]), shape,
                              init)
    if role == "env":
        return EnvironmentObstacle(oid, rng.choice([ObstacleType.BUILDING, ObstacleType.PILLAR]),
                                   rand_shape(rng, ("rect", "circ", "poly"), False))
    n = rng.randint(1, 5)
    if role in ("phantom", "dynamic_set"):
        occs = [Occupancy(t0 + 1 + i, rand_shape(rng, ("rect", "circ", "poly"), False)) for i in range(n)]
        if interval_occ and rng.random() < 0.7:
            # Occupancy.time_step may be an Interval (XML: <time><intervalStart/><intervalEnd/></time>): the last
            # occupancy stands for the rest of the horizon, sometimes every occupancy carries a (degenerate) interval
            if rng.random() < 0.3:
                for o in occs[:-1]:
                    o.time_step = Interval(o.time_step, o.time_step)
            occs[-1].time_step = Interval(t0 + n, t0 + n + rng.choice([0, 1, 3]))
        pred = SetBasedPrediction(t0 + 1, occs)
        if role == "phantom":
            return PhantomObstacle(oid, pred)
        return DynamicObstacle(oid, otype, shape, init, pred)
    if role == "dynamic_none":
        return DynamicObstacle(oid, otype, shape, init, None)
    traj = rand_trajectory(rng, t0 + 1, n, uncertain=uncertain)
    kw = {}
    if rng.random() < 0.4:
        kw["initial_signal_state"] = rand_signal(rng, t0)
        kw["signal_series"] = [rand_signal(rng, t0 + 1 + i) for i in range(n)]
    return DynamicObstacle(oid, otype, shape, init, TrajectoryPrediction(traj, shape), **kw)


def rand_goal_state(rng, with_pos=True):
    kw = {"time_step": Interval(rng.randint(0, 5), rng.randint(5, 30))}
    if with_pos and rng.random() < 0.8:
        kw["position"] = rand_shape(rng, ("rect", "circ", "poly"), False)
    if rng.random() < 0.6:
        a = rnd(rng, -3, 2)
        kw["orientation"] = AngleInterval(a, a + rnd(rng, 0.1, 1.0))
    if rng.random() < 0.6:
        v = rnd(rng, 0, 10)
        kw["velocity"] = Interval(v, v + rnd(rng, 0.5, 5))
    return CustomState(**kw)


def rand_planning_problem_set(rng, first_id=900, n=None, lanelet_ids=None):
    pps = []
    for i in range(n or rng.randint(1, 2)):
        goals = [rand_goal_state(rng) for _ in range(rng.randint(1, 3))]
        log = None
        if lanelet_ids and rng.random() < 0.5:
            log = {j: [rng.choice(lanelet_ids)] for j in range(len(goals)) if rng.random() < 0.7} or None
        init = rand_state(rng, InitialState, 0)
        pps.append(PlanningProblem(first_id + i, init, GoalRegion(goals, log)))
    return PlanningProblemSet(pps)


def rand_scenario(rng, n_obstacles=None, roles=None, uncertain=False, with_extras=True):
    net = rand_network(rng, with_extras=with_extras)
    sc = Scenario(0.1, ScenarioID(False, "ZAM", "Test", rng.randint(1, 9), rng.randint(1, 9), "T", 1))
    sc.add_objects(net)
    n = rng.randint(1, 4) if n_obstacles is None else n_obstacles
    for i in range(n):
        sc.add_objects(rand_obstacle(rng, 500 + i, role=rng.choice(roles) if roles else None, uncertain=uncertain))
    return sc
