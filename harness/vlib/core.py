"""Common machinery of every check (DESIGN 2): context, Coq build / evaluation, known findings,
outcome rules, evidence.  One Ctx per check run."""
import fcntl
import hashlib
import json
import os
import random
import re
import subprocess
import sys
import time
import traceback
from fractions import Fraction

VERIF = os.path.dirname(os.path.dirname(os.path.dirname(os.path.abspath(__file__))))
REPO = os.environ.get("VERIF_REPO", "/repo")
COQ = os.path.join(VERIF, "coq")
# scratch (Cases, build of Gen) lives inside /verif/coq unless VERIF_SCRATCH points elsewhere
CASES = os.path.join(COQ, "Cases")

AUDIT_RE = re.compile(r"\b(Admitted|admit|Axiom|Parameter|Conjecture|Unset Guard|bypass_check|Admit Obligations)\b")


def sha(obj) -> str:
    return hashlib.sha1(json.dumps(obj, sort_keys=True, default=str).encode()).hexdigest()[:12]


# ----------------------------------------------------------------------------- Coq term printers
def qz(x) -> str:
    """Python int -> Coq Z literal"""
    x = int(x)
    return f"({x})%Z" if x < 0 else f"{x}%Z"


def qq(x) -> str:
    """Python float / int / Fraction -> exact Coq Q literal"""
    f = Fraction(x)
    n, d = f.numerator, f.denominator
    return f"(({n}) # {d})" if n < 0 else f"({n} # {d})"


def qb(b) -> str:
    return "true" if b else "false"


def qlist(items) -> str:
    return "[" + "; ".join(items) + "]"


def qopt(x, f) -> str:
    return "None" if x is None else f"(Some {f(x)})"


def qstr(s: str) -> str:
    return '"' + s.replace('"', '""') + '"%string'


def ensure_makefile():
    """_CoqProject = '-Q . CR' + the file lists of coq/proj/*.txt (one fragment per property, so that
    properties can be developed independently); Makefile.coq regenerated when the list changes."""
    import glob
    files = []
    for frag in sorted(glob.glob(os.path.join(COQ, "proj", "*.txt"))):
        for ln in open(frag).read().split():
            if ln and ln not in files and os.path.exists(os.path.join(COQ, ln)):
                files.append(ln)
    text = "-Q . CR\n" + "\n".join(files) + "\n"
    cp = os.path.join(COQ, "_CoqProject")
    mk = os.path.join(COQ, "Makefile.coq")
    if not os.path.exists(cp) or open(cp).read() != text or not os.path.exists(mk):
        with open(cp, "w") as f:
            f.write(text)
        subprocess.run(["coq_makefile", "-f", "_CoqProject", "-o", "Makefile.coq"], cwd=COQ, check=True,
                       stdout=subprocess.DEVNULL)


class Findings:
    """known_findings.json: {"findings":[{"property","signature","what"}], "fixed":[...]}.
    A finding is matched by exact signature string (class / call site / input shape)."""

    def __init__(self):
        p = os.path.join(VERIF, "known_findings.json")
        self.data = json.load(open(p)) if os.path.exists(p) else {"findings": [], "fixed": []}

    def lookup(self, prop, signature):
        for f in self.data.get("findings", []):
            if f["property"] == prop and f["signature"] == signature:
                return f
        return None


class Ctx:
    def __init__(self, prop: str, tier: str, seed: int):
        self.prop, self.tier, self.seed = prop, tier, seed
        self.rng = random.Random(seed * 1000003 + int(prop[1:]))
        self.t0 = time.time()
        self.findings = Findings()
        self.failures = []  # oracle failures: dict(signature, what, replay)
        self.corr_breaks = []  # correspondence breaks: dict(relation, case)
        self.proof_breaks = []  # broken theorems / obligations
        self.obligations = []
        self.discharged = 0
        self.assumptions_printed = []
        self.coverage = {}
        self.trusted = []
        self.notes = []
        self.evaluations = 0
        self.distinct = set()
        self.samples = []
        self.dist = {}
        self.quick = tier == "quick"
        os.makedirs(CASES, exist_ok=True)
        os.makedirs(os.path.join(VERIF, "evidence", "replays"), exist_ok=True)

    # ------------------------------------------------------------------ bookkeeping
    def n(self, quick, thorough):
        return quick if self.quick else thorough

    def count(self, case, nontrivial=True, kind=None):
        self.evaluations += 1
        if nontrivial:
            self.distinct.add(sha(case))
        if kind is not None:
            self.dist[kind] = self.dist.get(kind, 0) + 1
        if len(self.samples) < 4 and nontrivial:
            self.samples.append(case)

    def log(self, *a):
        print(f"[{self.prop}]", *a, flush=True)

    # ------------------------------------------------------------------ Coq
    def _lock(self):
        f = open(os.path.join(COQ, ".build.lock"), "w")
        fcntl.flock(f, fcntl.LOCK_EX)
        return f

    def ensure_makefile(self):
        ensure_makefile()

    def build_props(self, extra_targets=()):
        """(re)build Props/<prop>.vo with everything it depends on; record obligations.
        Returns True iff every theorem of the property file was accepted by coqc."""
        src = os.path.join(COQ, "Props", f"{self.prop}.v")
        text = open(src).read()
        thms = re.findall(r"^\s*(?:Theorem|Example|Lemma|Corollary)\s+(\w+)", text, re.M)
        self.obligations = thms
        lock = self._lock()
        try:
            self.ensure_makefile()
            vo = os.path.join(COQ, "Props", f"{self.prop}.vo")
            if os.path.exists(vo):
                os.remove(vo)  # always re-check the property file itself (Print Assumptions output)
            # thorough: rebuild the whole dependency cone of the property file from source (make -B), without
            # touching other properties' build output
            force = ["-B"] if self.tier == "thorough" else []
            targets = [f"Props/{self.prop}.vo"] + list(extra_targets)
            if os.path.exists(os.path.join(COQ, "Corr", f"{self.prop}.v")):
                targets.append(f"Corr/{self.prop}.vo")
            for attempt in range(3):
                r = subprocess.run(["timeout", "1500", "make", "-f", "Makefile.coq", "-j8"] + force + targets, cwd=COQ,
                                   capture_output=True, text=True)
                # a coqc that was killed (out of memory while other jobs run on the machine) says nothing about the
                # proofs: wait and build again, with less parallelism
                if r.returncode == 0 or not re.search(r"\bKilled\b|Out of memory|Cannot allocate|Terminated",
                                                      r.stdout + r.stderr):
                    break
                self.notes.append(f"build attempt {attempt + 1}: a compiler process was killed; retrying")
                time.sleep(30 * (attempt + 1))
        finally:
            lock.close()
        out = r.stdout + r.stderr
        self.build_log = out
        closed = out.count("Closed under the global context")
        axioms = re.findall(r"^Axioms:\n((?:.+\n)+?)(?=\S|\Z)", out, re.M)
        self.assumptions_printed = ["Closed under the global context"] * closed + [a.strip() for a in axioms]
        if r.returncode != 0:
            m = re.search(r'File "([^"]+)", line (\d+)', out)
            where = f"{m.group(1)}:{m.group(2)}" if m else "?"
            thm = "?"
            if m:
                try:
                    path = m.group(1)
                    path = path if os.path.isabs(path) else os.path.join(COQ, path)
                    lines = open(path).read().split("\n")[: int(m.group(2))]
                    for ln in reversed(lines):
                        mm = re.match(r"\s*(?:Theorem|Example|Lemma|Corollary|Definition|Fixpoint)\s+(\w+)", ln)
                        if mm:
                            thm = mm.group(1)
                            break
                except Exception:
                    pass
            self.proof_breaks.append({"theorem": thm, "where": where, "log": out[-1500:]})
            self.discharged = 0
            self.log(f"proof_broken theorem={thm} at {where}")
            return False
        self.discharged = len(thms)
        # source audit: nothing admitted / assumed anywhere in the development
        bad = []
        for root, _, files in os.walk(COQ):
            if root.endswith("Cases"):
                continue
            for fn in files:
                if fn.endswith(".v"):
                    body = open(os.path.join(root, fn)).read()
                    body = re.sub(r"\(\*.*?\*\)", "", body, flags=re.S)
                    for mm in AUDIT_RE.finditer(body):
                        bad.append(f"{fn}:{mm.group(1)}")
        if bad:
            self.proof_breaks.append({"theorem": "audit", "where": ",".join(bad), "log": ""})
            self.discharged = 0
            return False
        self.log(f"proof_ok theorems={len(thms)} closed={closed} axioms={len(axioms)}")
        return True

    def coqchk(self):
        lock = self._lock()
        try:
            r = subprocess.run(["timeout", "1500", "coqchk", "-silent", "-o", "-Q", ".", "CR", f"CR.Props.{self.prop}"],
                               cwd=COQ, capture_output=True, text=True)
        finally:
            lock.close()
        out = r.stdout + r.stderr
        self.coverage["coqchk"] = {"exit": r.returncode, "tail": out[-1200:]}
        if r.returncode != 0:
            self.proof_breaks.append({"theorem": "coqchk", "where": "", "log": out[-1500:]})
        return r.returncode == 0

    def coq_eval(self, name: str, imports: str, body: str, timeout=900):
        """compile a generated Cases file; returns (ok, stdout).  The file must print with
        [Eval vm_compute in ...]."""
        path = os.path.join(CASES, f"{self.prop}_{name}.v")
        with open(path, "w") as f:
            f.write(imports + "\n" + body + "\n")
        for attempt in range(4):
            r = subprocess.run(["timeout", str(timeout), "coqc", "-Q", ".", "CR", path], cwd=COQ, capture_output=True,
                               text=True)
            # 0: evaluated; 1: an error of coqc's own (reported).  Anything else: the process was killed (timeout 124,
            # SIGKILL 137 / -9 when the machine runs out of memory) - that is not an answer of the model: try again
            if r.returncode in (0, 1) and "out of memory" not in r.stderr.lower():
                break
            time.sleep(20 * (attempt + 1))
        for ext in (".vo", ".vok", ".vos", ".glob"):
            try:
                os.remove(path[:-2] + ext)
            except OSError:
                pass
        aux = os.path.join(CASES, f".{self.prop}_{name}.aux")
        if os.path.exists(aux):
            os.remove(aux)
        return r.returncode == 0, r.stdout + r.stderr

    def coq_bad_indices(self, name, imports, defs, cases_terms, check_fn, shard=400):
        """cases_terms: list of Coq terms (one per case); check_fn: Coq function name : case -> bool.
        Evaluates in shards (parallel) and returns (list of indices whose check is false, errors)."""
        import concurrent.futures

        jobs = []
        for s in range(0, len(cases_terms), shard):
            chunk = cases_terms[s: s + shard]
            body = defs + "\nDefinition cases := " + qlist(chunk) + ".\n"
            body += ("Definition bad := let fix go (i : N) l := match l with nil => nil | c :: r => "
                     f"if {check_fn} c then go (N.succ i) r else i :: go (N.succ i) r end in go 0%N cases.\n")
            body += "Eval vm_compute in bad.\n"
            jobs.append((s, f"{name}_{s // shard}", body))
        bad, errors = [], []

        def run(job):
            s, nm, body = job
            ok, out = self.coq_eval(nm, imports, body)
            return s, ok, out

        with concurrent.futures.ThreadPoolExecutor(max_workers=12) as ex:
            for s, ok, out in ex.map(run, jobs):
                if not ok:
                    errors.append(out[-800:])
                    continue
                m = re.search(r"=\s*(\[.*?\]|nil)\s*:\s*list N", out, re.S)
                if not m:
                    errors.append("unparsed: " + out[-400:])
                    continue
                bad += [s + int(x) for x in re.findall(r"\d+", m.group(1))]
        return bad, errors

    # ------------------------------------------------------------------ outcomes
    def fail(self, signature: str, what: str, replay):
        """an oracle failure: the property statement is violated by the implementation on [replay]"""
        for f in self.failures:
            if f["signature"] == signature:
                f["count"] += 1
                return
        self.failures.append({"signature": signature, "what": what, "replay": replay, "count": 1})

    def corr_break(self, relation: str, case):
        if len(self.corr_breaks) < 50:
            self.corr_breaks.append({"relation": relation, "case": case})
        else:
            self.corr_breaks[-1].setdefault("more", 0)
            self.corr_breaks[-1]["more"] += 1

    def write_replay(self, tag, obj):
        p = os.path.join(VERIF, "evidence", "replays", f"{self.prop}-{tag}.json")
        with open(p, "w") as f:
            json.dump(obj, f, indent=1, default=str)
        return os.path.relpath(p, VERIF)

    def finish(self, rule: str, extra_cov=None, assumptions=None):
        violations = 0
        lines = []
        for f in self.failures:
            k = self.findings.lookup(self.prop, f["signature"])
            if k is not None:
                lines.append(f"KNOWN-FINDING: property={self.prop} {k.get('what', f['what'])} [{f['signature']}]")
            else:
                path = self.write_replay(sha(f["signature"]), {"property": self.prop, "seed": self.seed,
                                                               "tier": self.tier, "signature": f["signature"],
                                                               "what": f["what"], "case": f["replay"],
                                                               "count": f["count"]})
                lines.append(f"VIOLATION property={self.prop} replay={path}")
                self.log(f"  failing input: {f['what']} [{f['signature']}]")
                violations += 1
        unexplained = violations == 0 and (self.proof_breaks or self.corr_breaks)
        if unexplained:
            # the model no longer matches or a theorem no longer checks, and the search found no input
            path = self.write_replay("unproved", {"property": self.prop, "seed": self.seed, "tier": self.tier,
                                                  "theorems_not_checking": self.proof_breaks,
                                                  "correspondence_not_checking": self.corr_breaks,
                                                  "note": "no failing input found by the widened search"})
            lines.append(f"VIOLATION property={self.prop} replay={path} no-failing-input-found")
            violations += 1
        cov = {
            "obligations": len(self.obligations),
            "discharged": self.discharged,
            "checker_cmd": f"cd coq && make -f Makefile.coq Props/{self.prop}.vo   # coqc 8.16.1, full .vo build"
                           + ("; coqchk -o" if self.tier == "thorough" else ""),
            "trusted_base": self.trusted,
            "theorems": self.obligations,
            "print_assumptions": sorted(set(self.assumptions_printed)),
            "evaluations": self.evaluations,
            "distinct_nontrivial": len(self.distinct),
            "rule": rule,
            "samples": self.samples[:4],
            "input_distribution": self.dist,
            "proof_breaks": self.proof_breaks,
            "correspondence_breaks": len(self.corr_breaks),
            "oracle_failures": [{"signature": f["signature"], "what": f["what"], "count": f["count"]}
                                for f in self.failures],
            "notes": self.notes,
        }
        cov.update(self.coverage)
        if extra_cov:
            cov.update(extra_cov)
        ev = {"property_id": self.prop, "tier": self.tier, "seed": self.seed, "level": "proof", "coverage": cov,
              "assumptions": assumptions or [], "wall_s": round(time.time() - self.t0, 2), "violations": violations}
        with open(os.path.join(VERIF, "evidence", f"{self.prop}.json"), "w") as f:
            json.dump(ev, f, indent=1, default=str)
        for ln in lines:
            print(ln, flush=True)
        self.log(f"done tier={self.tier} seed={self.seed} evaluations={self.evaluations} "
                 f"distinct={len(self.distinct)} violations={violations} wall={ev['wall_s']}s")
        return 1 if violations else 0


def outcome_of(fn, *a, **k):
    """run an implementation call; returns ('ok', value) or ('exc', ExceptionClassName)"""
    try:
        return ("ok", fn(*a, **k))
    except Exception as e:  # noqa
        return ("exc", type(e).__name__)
