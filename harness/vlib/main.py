"""./check <property> [--tier quick|thorough] [--replay file]"""
import argparse
import importlib
import json
import os
import sys
import traceback

from vlib.core import Ctx, VERIF


def main():
    ap = argparse.ArgumentParser()
    ap.add_argument("prop")
    ap.add_argument("--tier", default=os.environ.get("VERIF_TIER", "quick"), choices=["quick", "thorough"])
    ap.add_argument("--replay")
    a = ap.parse_args()
    seed = int(os.environ.get("VERIF_SEED", "20260926"))
    prop = a.prop.upper()
    mod = importlib.import_module(f"props.{prop.lower()}")
    if a.replay:
        rp = json.load(open(a.replay if os.path.isabs(a.replay) else os.path.join(VERIF, a.replay)))
        if "case" not in rp:
            print(f"replay names theorems / correspondence that no longer check: "
                  f"{json.dumps(rp.get('theorems_not_checking'))[:600]} "
                  f"{json.dumps(rp.get('correspondence_not_checking'))[:1200]}")
            sys.exit(1)
        r = mod.oracle(rp["case"])
        if r:
            print(f"VIOLATION property={prop} replay={a.replay}")
            print("  ", r)
            sys.exit(1)
        print(f"replay passes: property={prop} holds on the recorded case")
        sys.exit(0)
    ctx = Ctx(prop, a.tier, seed)
    try:
        code = mod.run(ctx)
    except Exception:
        tb = traceback.format_exc()
        print(tb)
        # the harness only calls the implementation through guarded wrappers; an exception that
        # escapes means the code under test no longer behaves as the model / harness expects
        path = ctx.write_replay("crash", {"property": prop, "seed": seed, "tier": a.tier,
                                          "correspondence_not_checking": [{"relation": "harness run", "case": tb[-3000:]}],
                                          "theorems_not_checking": ctx.proof_breaks})
        print(f"VIOLATION property={prop} replay={path} no-failing-input-found")
        sys.exit(1)
    sys.exit(code)


if __name__ == "__main__":
    main()
