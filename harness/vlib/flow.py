"""The standard flow of a check (DESIGN 2.5): build proofs, corpus, generate, oracle, correspondence,
widened search when a proof or the correspondence broke."""
import glob
import json
import os

from vlib.core import VERIF


def load_corpus(prop):
    out = []
    for p in sorted(glob.glob(os.path.join(VERIF, "corpus", prop, "*.json"))):
        try:
            out.append(json.load(open(p)))
        except Exception:
            pass
    return out


def standard_run(ctx, mod, n_quick, n_thorough, rule, assumptions, widen=8):
    """mod provides: gen(rng, n) -> list of cases; oracle(case) -> None | (signature, what);
    corr(ctx, cases) -> None (records ctx.corr_break); optional nontrivial(case), kind(case)."""
    ctx.build_props()
    if ctx.tier == "thorough":
        ctx.coqchk()
    n = ctx.n(n_quick, n_thorough)
    corpus = load_corpus(ctx.prop)
    cases = corpus + mod.gen(ctx.rng, n)
    nontrivial = getattr(mod, "nontrivial", lambda c: True)
    kind = getattr(mod, "kind", lambda c: c.get("op") if isinstance(c, dict) else None)

    def run_oracle(cs):
        for c in cs:
            ctx.count(c, nontrivial(c), kind(c))
            r = mod.oracle(c)
            if r:
                ctx.fail(r[0], r[1], c)

    run_oracle(cases)
    mod.corr(ctx, cases)
    if (ctx.proof_breaks or ctx.corr_breaks) and not ctx.failures:
        ctx.log(f"proof/correspondence broke ({len(ctx.proof_breaks)}/{len(ctx.corr_breaks)}); widening the search")
        # the disagreeing cases themselves first, then a larger generated set
        run_oracle([b["case"] for b in ctx.corr_breaks if isinstance(b.get("case"), dict)])
        if not ctx.failures:
            more = mod.gen(ctx.rng, n * widen)
            if hasattr(mod, "gen_around"):
                more = mod.gen_around(ctx.rng, [b["case"] for b in ctx.corr_breaks], n) + more
            run_oracle(more)
    return ctx.finish(rule, assumptions=assumptions)
