"""Canonical content of a scenario + planning-problem set: exactly the information the CommonRoad file
formats are meant to carry (properties C01 / C02), extracted through public accessors into plain
JSON-able data, independent of the library's own __eq__ (see C12).  `compare` implements the
equivalence of the property statements: discrete values identical, reals within a tolerance."""
import math

import numpy as np

from commonroad.common.util import AngleInterval, Interval
from commonroad.geometry.shape import Circle, Polygon, Rectangle, Shape, ShapeGroup
from commonroad.prediction.prediction import SetBasedPrediction, TrajectoryPrediction
from commonroad.scenario.obstacle import DynamicObstacle, EnvironmentObstacle, PhantomObstacle, StaticObstacle

SIGNAL_FIELDS = ["horn", "indicator_left", "indicator_right", "braking_lights", "hazard_warning_lights",
                 "flashing_blue_lights"]
INITIAL_DEFAULTS = ["position", "orientation", "velocity", "acceleration", "yaw_rate", "slip_angle"]


def num(x):
    if isinstance(x, (bool, np.bool_)):
        return bool(x)
    if isinstance(x, (int, np.integer)):
        return int(x)
    return float(x)


def pts(a):
    return None if a is None else [[float(v) for v in p] for p in np.asarray(a)]


def shape(s, centred=False):
    if s is None:
        return None
    if isinstance(s, Rectangle):
        d = {"k": "rect", "l": float(s.length), "w": float(s.width)}
        if not centred:
            d["o"] = float(s.orientation)
            d["c"] = [float(s.center[0]), float(s.center[1])]
        return d
    if isinstance(s, Circle):
        d = {"k": "circ", "r": float(s.radius)}
        if not centred:
            d["c"] = [float(s.center[0]), float(s.center[1])]
        return d
    if isinstance(s, Polygon):
        v = pts(s.vertices)
        # the constructor closes the ring / normalises orientation; compare as a vertex cycle without the repeat
        if len(v) > 1 and v[0] == v[-1]:
            v = v[:-1]
        return {"k": "poly", "v": v}
    if isinstance(s, ShapeGroup):
        return {"k": "group", "m": [shape(x, centred) for x in s.shapes]}
    raise TypeError(type(s))


def value(v):
    if isinstance(v, AngleInterval) or isinstance(v, Interval):
        return ["itv", num(v.start), num(v.end)]
    if isinstance(v, Shape):
        return shape(v)
    if isinstance(v, (np.ndarray, list, tuple)):
        return ["pt"] + [float(x) for x in v]
    return num(v)


def state(st, initial=False):
    """populated attributes with their values (class excluded, DESIGN 2.7)"""
    if st is None:
        return None
    d = {}
    for a in st.attributes:
        v = getattr(st, a)
        if v is None:
            continue
        d[a] = value(v)
    if initial:
        for a in INITIAL_DEFAULTS:
            if a not in d:
                d[a] = ["pt", 0.0, 0.0] if a == "position" else 0.0
    return d


def signal(sg):
    if sg is None:
        return None
    d = {"time_step": num(sg.time_step)}
    for f in SIGNAL_FIELDS:
        if hasattr(sg, f) and getattr(sg, f) is not None:
            d[f] = bool(getattr(sg, f))
    return d


def occupancy(o):
    t = o.time_step
    return {"t": ["itv", num(t.start), num(t.end)] if isinstance(t, Interval) else num(t), "shape": shape(o.shape)}


def prediction(p, fmt="xml"):
    if p is None:
        return None
    if isinstance(p, TrajectoryPrediction):
        d = {"traj": [state(s) for s in p.trajectory.state_list], "t0": num(p.trajectory.initial_time_step)}
        if fmt == "pb":
            # the protobuf format has a field for the prediction's own shape (XML has not: there it is the obstacle's)
            d["shape"] = shape(p.shape)
        return d
    if isinstance(p, SetBasedPrediction):
        return {"occ": [occupancy(o) for o in p.occupancy_set], "t0": num(p.initial_time_step)}
    raise TypeError(type(p))


def obstacle(o, fmt):
    if isinstance(o, EnvironmentObstacle):
        return {"role": "environment", "type": o.obstacle_type.name, "shape": shape(o.obstacle_shape)}
    if isinstance(o, PhantomObstacle):
        return {"role": "phantom", "prediction": prediction(o.prediction)}
    d = {"role": "dynamic" if isinstance(o, DynamicObstacle) else "static", "type": o.obstacle_type.name,
         "initial_state": state(o.initial_state, initial=True)}
    if isinstance(o, DynamicObstacle):
        # a dynamic obstacle's shape is documented as origin-centred: only the dimensions are stored
        d["shape"] = shape(o.obstacle_shape, centred=(fmt == "xml"))
        d["prediction"] = prediction(o.prediction, fmt)
    else:
        d["shape"] = shape(o.obstacle_shape)
    if isinstance(o, DynamicObstacle) or fmt == "pb":
        d["initial_signal_state"] = signal(o.initial_signal_state)
        d["signal_series"] = [signal(s) for s in (o.signal_series or [])]
    return d


def ids(s):
    return None if s is None else sorted(int(x) for x in s)


def lanelet(la, fmt_pb=False):
    sl = la.stop_line
    return {
        "left": pts(la.left_vertices), "right": pts(la.right_vertices), "center": pts(la.center_vertices),
        "lm_left": la.line_marking_left_vertices.name, "lm_right": la.line_marking_right_vertices.name,
        "pred": [int(x) for x in la.predecessor], "succ": [int(x) for x in la.successor],
        "adj_left": None if la.adj_left is None else [int(la.adj_left), bool(la.adj_left_same_direction)],
        "adj_right": None if la.adj_right is None else [int(la.adj_right), bool(la.adj_right_same_direction)],
        # a direction flag without a neighbour (reachable through the setters); XML cannot carry it, protobuf can
        **({"adj_left_dir_alone": bool(la.adj_left_same_direction)}
           if fmt_pb and la.adj_left is None and la.adj_left_same_direction is not None else {}),
        **({"adj_right_dir_alone": bool(la.adj_right_same_direction)}
           if fmt_pb and la.adj_right is None and la.adj_right_same_direction is not None else {}),
        "stop_line": None if sl is None else {
            "start": pts([sl.start])[0] if sl.start is not None else None,
            "end": pts([sl.end])[0] if sl.end is not None else None,
            "lm": sl.line_marking.name, "signs": ids(sl.traffic_sign_ref or set()),
            "lights": ids(sl.traffic_light_ref or set())},
        "types": sorted(t.name for t in la.lanelet_type),
        "one_way": sorted(u.name for u in (la.user_one_way or set())),
        "bidir": sorted(u.name for u in (la.user_bidirectional or set())),
        "signs": ids(la.traffic_signs), "lights": ids(la.traffic_lights)}


def sign(s, fmt):
    d = {"elements": [[f"{type(e.traffic_sign_element_id).__name__}.{e.traffic_sign_element_id.name}",
                       [str(v) for v in e.additional_values]] for e in s.traffic_sign_elements],
         "position": None if s.position is None else [float(x) for x in s.position[:2]], "virtual": bool(s.virtual)}
    if fmt == "pb":
        d["first_occurrence"] = ids(s.first_occurrence)
    return d


def light(t, fmt):
    c = t.traffic_light_cycle
    d = {"cycle": None if c is None or c.cycle_elements is None else [[e.state.name, num(e.duration)]
                                                                      for e in c.cycle_elements],
         "offset": 0 if c is None else num(c.time_offset or 0),
         "position": None if t.position is None else [float(x) for x in t.position[:2]],
         "direction": t.direction.name, "active": bool(t.active)}
    return d


def intersection(i):
    return {"incomings": {int(e.incoming_id): {"lanelets": ids(e.incoming_lanelets or set()),
                                               "right": ids(e.successors_right or set()),
                                               "straight": ids(e.successors_straight or set()),
                                               "left": ids(e.successors_left or set()),
                                               "left_of": None if e.left_of is None else int(e.left_of)}
                          for e in i.incomings},
            "crossings": ids(i.crossings or set())}


def location(loc):
    if loc is None:
        return None
    g, e = loc.geo_transformation, loc.environment
    return {"geo_name_id": num(loc.geo_name_id), "lat": num(loc.gps_latitude), "lon": num(loc.gps_longitude),
            "geo": None if g is None else {"ref": g.geo_reference, "x": num(g.x_translation), "y": num(g.y_translation),
                                           "rot": num(g.z_rotation), "scale": num(g.scaling)},
            "env": None if e is None else {"time": None if e.time is None else [e.time.hours, e.time.minutes],
                                           "tod": getattr(e.time_of_day, "name", None),
                                           "weather": getattr(e.weather, "name", None),
                                           "underground": getattr(e.underground, "name", None)}}


def problem(p):
    g = p.goal
    log = g.lanelets_of_goal_position
    goals = []
    for i, st in enumerate(g.state_list):
        ll = None
        if log is not None and i in log.keys() and len(log[i]) > 0:
            ll = [int(x) for x in log[i]]
        sd = state(st)
        if ll is not None:
            sd.pop("position", None)  # derived from the lanelets (their polygons)
        goals.append({"state": sd, "lanelets": ll})
    return {"initial_state": state(p.initial_state, initial=True), "goals": goals}


def canon(sc, pps, fmt="xml", meta=None):
    """meta: the writer's author / affiliation / source / tags / location arguments (they override the scenario's)"""
    net = sc.lanelet_network
    d = {
        "dt": float(sc.dt), "benchmark_id": str(sc.scenario_id),
        "author": sc.author, "affiliation": sc.affiliation, "source": sc.source,
        "tags": sorted(t.name for t in (sc.tags or set())), "location": location(sc.location),
        "lanelets": {int(la.lanelet_id): lanelet(la, fmt == "pb") for la in net.lanelets},
        "signs": {int(s.traffic_sign_id): sign(s, fmt) for s in net.traffic_signs},
        "lights": {int(t.traffic_light_id): light(t, fmt) for t in net.traffic_lights},
        "intersections": {int(i.intersection_id): intersection(i) for i in net.intersections},
        "obstacles": {int(o.obstacle_id): obstacle(o, fmt) for o in sc.obstacles},
        "problems": None if pps is None else {int(k): problem(p) for k, p in pps.planning_problem_dict.items()},
    }
    if meta:
        d.update(meta)
    return d


def _thin_same_ring(a, b, tol):
    """a polygon that is not expressible at the precision it is written with: rounding every vertex by less than tol
    makes the ring cross itself or turns it over, and the Polygon constructor (which the reader uses) stores every ring
    clockwise by its signed area - the vertex list comes back in the opposite order although every written coordinate
    is within tol.  Excused (compared as the same cycle traversed the other way round) only when the vertex-wise
    comparison would fail, the read-back is the expected cycle reversed within tol, and the ring as read back is not a
    valid simple polygon of the expected orientation."""
    try:
        from shapely.geometry import Polygon as SP
        va, vb = a["v"], b["v"]
        n = len(va)
        if n != len(vb) or n < 3:
            return False

        def close(p, q):
            return all(abs(x - y) < tol + 1e-12 * max(abs(x), abs(y)) for x, y in zip(p, q))
        if all(close(p, q) for p, q in zip(va, vb)):
            return False                   # nothing to excuse: the ordinary comparison runs (and passes)
        rev = vb[::-1]
        if not any(all(close(va[i], rev[(i + k) % n]) for i in range(n)) for k in range(n)):
            return False                   # not the same cycle backwards: the ordinary comparison runs (and fails)
        pa, pb = SP(va), SP(rev)
        return bool(not pb.is_valid or pb.exterior.is_ccw != pa.exterior.is_ccw)
    except Exception:  # noqa - anything odd: the ordinary comparison decides
        return False


def compare(a, b, tol, path="", out=None, limit=12):
    """paths where two canonical values differ; reals compared with |x-y| < tol (relative slack 1e-12)"""
    out = [] if out is None else out
    if len(out) >= limit:
        return out
    num_a = isinstance(a, (int, float)) and not isinstance(a, bool)
    num_b = isinstance(b, (int, float)) and not isinstance(b, bool)
    if num_a and num_b:
        if isinstance(a, int) and isinstance(b, int):
            if a != b:
                out.append(f"{path}: {a} != {b}")
        elif not (a == b or abs(a - b) < tol + 1e-12 * max(abs(a), abs(b)) or (math.isnan(a) and math.isnan(b))):
            out.append(f"{path}: {a!r} != {b!r} (tol {tol:g})")
        return out
    if type(a) is not type(b):
        out.append(f"{path}: {str(a)[:70]} != {str(b)[:70]}")
        return out
    if isinstance(a, dict) and a.get("k") == "poly" and b.get("k") == "poly" and tol > 0 and _thin_same_ring(a, b, tol):
        return out
    if isinstance(a, dict):
        for k in sorted(set(a) | set(b), key=str):
            if k not in a:
                out.append(f"{path}.{k}: only in read-back ({str(b[k])[:50]})")
            elif k not in b:
                out.append(f"{path}.{k}: dropped (was {str(a[k])[:50]})")
            else:
                compare(a[k], b[k], tol, f"{path}.{k}", out, limit)
        return out
    if isinstance(a, list):
        if len(a) != len(b):
            out.append(f"{path}: length {len(a)} != {len(b)}")
            return out
        for i, (x, y) in enumerate(zip(a, b)):
            compare(x, y, tol, f"{path}[{i}]", out, limit)
        return out
    if a != b:
        out.append(f"{path}: {a!r} != {b!r}")
    return out


def signature(diff_line):
    """stable signature of a difference: the path with ids / indices abstracted"""
    import re
    p = diff_line.split(":")[0]
    p = re.sub(r"\.\d+", ".#", p)
    p = re.sub(r"\[\d+\]", "[]", p)
    kind = "dropped" if "dropped" in diff_line else "only-in-read-back" if "only in read-back" in diff_line else \
        "length" if "length" in diff_line else "value"
    return f"{p}:{kind}"
