"""py2coq — a fail-closed translator from a small subset of Python (the pure decision cores of commonroad-io)
to Gallina, by symbolic execution of the function bodies (DESIGN 1.3, "translator" tie).

What it does: given source modules, a function / method and the *kinds* of its arguments (number over Q, integer
over Z, object of a class whose attributes are numbers), it executes the Python AST symbolically:
  * properties, setters, constructors, methods and module-level functions are inlined (method resolution along the
    class hierarchy as written in the source);
  * conditions that are decided by the kinds alone (``x is None``, ``type(o) is C``, ``isinstance``, ``hasattr``) are
    decided at translation time; every other condition becomes a Coq ``if``;
  * ``assert c`` becomes ``if c then .. else Err``;
  * ``while c: <assignments>`` becomes a ``Fixpoint`` with explicit fuel (``None`` = out of fuel);
  * arithmetic is exact over Q / Z (``+ - * /``, ``%`` = floor modulus), comparisons are the boolean comparisons of
    Base/QMod.v.
Anything else (an unknown call, statement kind, operator, attribute, a side effect inside an expression) raises
TranslationError: the check that depends on the generated file then fails closed.  The output is plain Coq
definitions; equivalence with the hand-written model is a *lemma* proved in Proofs/ (so that a semantic change of the
source breaks a proof obligation)."""
import ast
import copy
import hashlib
import os
from fractions import Fraction


class TranslationError(Exception):
    pass


def _bad(node, why):
    line = getattr(node, "lineno", "?")
    src = ast.unparse(node) if isinstance(node, ast.AST) else str(node)
    raise TranslationError(f"line {line}: {why}: {src[:120]}")


# ------------------------------------------------------------------------------------------------ values
# ("Q", text) ("Z", text) ("B", text) ("S", python str) ("none",) ("ref", heap id) ("tup", [values]) ("static", python bool)
def Qv(t):
    return ("Q", t)


def Zv(t):
    return ("Z", t)


def Bv(t):
    return ("B", t)


NONE = ("none",)


def qlit(x):
    f = Fraction(x)
    if f.denominator == 1:
        return f"{f.numerator}" if f.numerator >= 0 else f"(- {-f.numerator})"
    return f"({f.numerator} # {f.denominator})" if f.numerator >= 0 else f"(- ({-f.numerator} # {f.denominator}))"


class Module:
    def __init__(self, name, path):
        self.name, self.path = name, path
        self.text = open(path).read()
        self.tree = ast.parse(self.text)
        self.funcs, self.classes = {}, {}
        for n in self.tree.body:
            if isinstance(n, ast.FunctionDef):
                self.funcs[n.name] = n
            elif isinstance(n, ast.ClassDef):
                self.classes[n.name] = n


class Fork(Exception):
    """a call inlined inside an expression branches on a run-time condition: the enclosing statement is re-executed
    once per truth value of that condition (conditions are texts over immutable symbolic variables, so an assumption
    holds along the whole path)"""

    def __init__(self, cond):
        self.cond = cond


class PathRaise(Exception):
    """a call inlined inside an expression raises on the current path: the enclosing statement raises (the guards
    collected before it in the same statement are tested first)"""

    def __init__(self, exc):
        self.exc = exc


class Translator:
    """consts: python name -> (kind, coq text); records: class name -> (coq record constructor fields [(attr, field)])"""

    def __init__(self, modules, consts, records, prims=None, nonzero=()):
        self.nonzero = set(nonzero)   # Coq texts of constants known to be non-zero (no ZeroDivisionError guard)
        self.modules = {m.name: m for m in modules}
        self.consts = consts
        self.records = records
        self.prims = prims or {}
        self.value_methods = {}     # (value kind, method name) -> fn(tr, base, args, node)   [for non-object values]
        self.value_attrs = {}       # (value kind, attribute name) -> fn(tr, base, node)
        self.value_subscripts = {}  # value kind -> fn(tr, base, slice node, env, heap, node)
        self.value_methods_kw = {}  # (value kind, method name) -> fn(tr, base, args, kwargs, node)   [keywords allowed]
        self.value_binops = {}      # (left kind, right kind, ast operator class name) -> fn(tr, a, b, node)
        self.value_subscript_stores = {}  # value kind -> fn(tr, base, slice node, value, env, heap, node) -> new base
        self.value_isinstance = {}  # opaque value kind -> set of class names it is an instance of
        self.value_types = {}       # opaque value kind -> Coq type (elements of lists a for loop runs over)
        self.object_renderers = {}  # class name -> fn(tr, obj, heap, ret) -> Coq term (instead of the record syntax)
        # result style: how a raising function is typed and how Ok / an exception are written.  Default: the type
        # `res` of Model/Interval.v, which forgets the exception class.
        self.res_type, self.ok_ctor = "res", "Ok"
        self.err_text = lambda exc: "Err"          # exception name -> Coq term
        self.err_pat = "Err"                       # pattern matching any raised exception (and the term rebuilding it)
        # "python": x / 0 raises ZeroDivisionError at the division.  "nan": numpy float64 operands, x / 0 does not
        # raise; every path that divided by zero and then *returns normally* yields the exception-like result "nan"
        # (the guard is deferred to the return; no later condition may depend on the quotient)
        self.div_mode = "python"
        self.cur_binders = []  # (coq name, binder text) of the definition being translated
        self.assume = {}       # condition text -> truth value assumed on the current path (see Fork)
        self.pending = []      # guards / option binds raised by the expression being evaluated (see with_pending)
        self.aux = []          # generated auxiliary Fixpoints (loops), in order
        self.aux_names = {}
        self.sources = {m.name: hashlib.sha1(m.text.encode()).hexdigest()[:12] for m in modules}

    # ------------------------------------------------------------------ lookup
    def find_class(self, name):
        for m in self.modules.values():
            if name in m.classes:
                return m.classes[name]
        return None

    def find_func(self, name):
        for m in self.modules.values():
            if name in m.funcs:
                return m.funcs[name]
        return None

    def mro(self, cname):
        out, c = [], cname
        while c is not None:
            node = self.find_class(c)
            if node is None:
                break
            out.append(node)
            bases = [b.id for b in node.bases if isinstance(b, ast.Name) and self.find_class(b.id)]
            if len(node.bases) > 1 and len(bases) > 1:
                _bad(node, "multiple inheritance")
            c = bases[0] if bases else None
        return out

    def is_subclass(self, cname, of):
        return any(c.name == of for c in self.mro(cname))

    def find_member(self, cname, name, kind):
        """kind: 'method' | 'getter' | 'setter'"""
        for c in self.mro(cname):
            for n in c.body:
                if not isinstance(n, ast.FunctionDef) or n.name != name:
                    continue
                decs = [ast.unparse(d) for d in n.decorator_list]
                if kind == "getter" and "property" in decs:
                    return n
                if kind == "setter" and f"{name}.setter" in decs:
                    return n
                if kind == "method" and (not decs or decs == ["staticmethod"]):
                    return n
                if kind == "method" and decs and not any(d == "property" or d.endswith(".setter") for d in decs):
                    _bad(n, "decorated method")
            # a class that defines the getter but not the setter (or vice versa) still shadows: Python resolves the
            # property object as a whole
            if kind in ("getter", "setter") and any(isinstance(n, ast.FunctionDef) and n.name == name for n in c.body):
                return None
        return None

    # ------------------------------------------------------------------ expressions (pure)
    def expr(self, node, env, heap):
        """pure evaluation: returns a value; inlined calls must reduce to a plain return"""
        if isinstance(node, ast.Constant):
            v = node.value
            if v is None:
                return NONE
            if isinstance(v, bool):
                return ("static", v)
            if isinstance(v, int):
                return ("num", v)
            if isinstance(v, float):
                return Qv(qlit(v))
            if isinstance(v, str):
                return ("S", v)
            _bad(node, "constant")
        if isinstance(node, ast.Name):
            if node.id in env:
                return env[node.id]
            if node.id in self.consts:
                return self.consts[node.id]
            _bad(node, "unknown name")
        if isinstance(node, ast.Tuple):
            return ("tup", [self.expr(e, env, heap) for e in node.elts])
        if isinstance(node, ast.List):
            return ("pylist", [self.expr(e, env, heap) for e in node.elts])
        if isinstance(node, ast.UnaryOp):
            v = self.expr(node.operand, env, heap)
            if isinstance(node.op, ast.USub):
                v = self.num(v)
                if v[0] == "num":
                    return ("num", -v[1])
                return (v[0], f"(- {v[1]})")
            if isinstance(node.op, ast.Not):
                v = self.truth(v, node)
                return ("static", not v[1]) if v[0] == "static" else Bv(f"(negb {v[1]})")
            _bad(node, "unary operator")
        if isinstance(node, ast.BinOp):
            a, b = self.expr(node.left, env, heap), self.expr(node.right, env, heap)
            hook = self.value_binops.get((a[0], b[0], type(node.op).__name__))
            if hook is not None:
                return hook(self, a, b, node)
            if a[0] == "L" and b[0] in ("Q", "Z", "num") and a[1] in ("Q", "Z") and isinstance(node.op, (ast.Add, ast.Sub, ast.Mult)):
                # numpy broadcasting: array op scalar
                x = (a[1], "x_")
                r = self.binop(node, x, self.num(b))
                return ("L", r[0], f"(map (fun x_ => {r[1]}) {a[2]})")
            return self.binop(node, self.num(a), self.num(b))
        if isinstance(node, ast.ListComp):
            return self.listcomp(node, env, heap)
        if isinstance(node, ast.Subscript):
            return self.subscript(node, env, heap)
        if isinstance(node, ast.BoolOp):
            vals = []
            is_and = isinstance(node.op, ast.And)
            for i, v in enumerate(node.values):
                n0 = len(self.pending)
                vals.append(self.truth(self.expr(v, env, heap), node))
                if len(self.pending) != n0 and any(x[0] != "static" for x in vals[:-1]):
                    _bad(node, "short-circuited operand can raise")
                if vals[-1][0] == "static" and vals[-1][1] != is_and:
                    break       # decided at translation time: Python does not evaluate the remaining operands
            out = []
            for v in vals:
                if v[0] == "static":
                    if v[1] != is_and:          # False in and / True in or: decides (operands are pure)
                        return ("static", not is_and)   # (earlier operands are pure terms; their guards stay pending)
                    continue
                out.append(v)
            if not out:
                return ("static", is_and)
            return self._fold(out, is_and)
        if isinstance(node, ast.Compare):
            return self.compare(node, env, heap)
        if isinstance(node, ast.IfExp):
            c = self.truth(self.expr(node.test, env, heap), node)
            if c[0] == "static":
                return self.expr(node.body if c[1] else node.orelse, env, heap)
            n0 = len(self.pending)
            a, b = self.expr(node.body, env, heap), self.expr(node.orelse, env, heap)
            if len(self.pending) != n0:
                _bad(node, "conditional operand can raise")
            if a[0] in ("static", "B") and b[0] in ("static", "B"):
                ta, tb = [("true" if x[1] else "false") if x[0] == "static" else x[1] for x in (a, b)]
                return Bv(f"(if {c[1]} then {ta} else {tb})")
            a, b = self.unify(self.num(a), self.num(b), node)
            if a[0] == "num":
                a, b = self.toZ(a), self.toZ(b)
            return (a[0], f"(if {c[1]} then {a[1]} else {b[1]})")
        if isinstance(node, ast.Attribute):
            return self.load_attr(node, env, heap)
        if isinstance(node, ast.Call):
            tree = self.resolve(self.call(node, env, heap, lambda v, h: ("ret", v, h)), node)
            self.absorb(heap, tree[2])
            return tree[1]
        _bad(node, "expression kind")

    def _fold(self, vals, is_and):
        op = "&&" if is_and else "||"
        vs = []
        for v in vals:
            if v[0] == "static":
                vs.append("true" if v[1] else "false")
            else:
                vs.append(v[1])
        t = vs[0]
        for x in vs[1:]:
            t = f"({t} {op} {x})"
        return Bv(t)

    def num(self, v):
        if v[0] in ("Q", "Z", "num"):
            return v
        raise TranslationError(f"number expected, got {v[0]}")

    def truth(self, v, node):
        if v[0] in ("B", "static"):
            return v
        _bad(node, f"boolean expected, got {v[0]}")

    def unify(self, a, b, node):
        """numbers of an arithmetic operation / comparison: Python ints meet Q or Z"""
        ka, kb = a[0], b[0]
        if ka == "num" and kb == "num":
            return a, b
        if "Q" in (ka, kb):
            return self.toQ(a), self.toQ(b)
        if "Z" in (ka, kb):
            return self.toZ(a), self.toZ(b)
        if ka == kb:
            return a, b
        _bad(node, f"cannot unify {ka} and {kb}")

    def toQ(self, v):
        if v[0] == "Q":
            return v
        if v[0] == "num":
            return Qv(qlit(v[1]))
        if v[0] == "Z":
            return Qv(f"(inject_Z {v[1]})")
        raise TranslationError(f"not a number: {v[0]}")

    def toZ(self, v):
        if v[0] == "Z":
            return v
        if v[0] == "num":
            return Zv(f"{v[1]}%Z" if v[1] >= 0 else f"({v[1]})%Z")
        raise TranslationError(f"not an integer: {v[0]}")

    def binop(self, node, a, b):
        op = node.op
        if a[0] == "num" and b[0] == "num":
            if isinstance(op, ast.Add):
                return ("num", a[1] + b[1])
            if isinstance(op, ast.Sub):
                return ("num", a[1] - b[1])
            if isinstance(op, ast.Mult):
                return ("num", a[1] * b[1])
            _bad(node, "operator on literals")
        a, b = self.unify(a, b, node)
        k = a[0]
        sym = {ast.Add: "+", ast.Sub: "-", ast.Mult: "*"}
        for cls, s in sym.items():
            if isinstance(op, cls):
                return (k, f"({a[1]} {s} {b[1]})")
        if isinstance(op, ast.Div):
            if k != "Q":
                a, b = self.toQ(a), self.toQ(b)
            if self.div_mode == "nan":
                d = ("defer", f"(Qeq_bool {b[1]} 0)", "nan", f"({a[1]} / {b[1]})")
                if d not in self.pending:
                    self.pending.append(d)
                return Qv(f"({a[1]} / {b[1]})")
            self.guard(f"(Qeq_bool {b[1]} 0)", "ZeroDivisionError")
            return Qv(f"({a[1]} / {b[1]})")
        if isinstance(op, ast.Mod):
            if k == "Q":
                if b[1] not in self.nonzero:
                    self.guard(f"(Qeq_bool {b[1]} 0)", "ZeroDivisionError")
                return Qv(f"(qmod {b[1]} {a[1]})")
            self.guard(f"(Z.eqb {b[1]} 0)", "ZeroDivisionError")
            return Zv(f"(Z.modulo {a[1]} {b[1]})")
        _bad(node, "binary operator")

    def guard(self, cond, exc):
        g = ("guard", cond, exc)
        if g not in self.pending:
            self.pending.append(g)

    def cmp1(self, op, a, b, node):
        a, b = self.unify(self.num(a), self.num(b), node)
        if a[0] == "num":
            fn = {ast.LtE: lambda x, y: x <= y, ast.Lt: lambda x, y: x < y, ast.GtE: lambda x, y: x >= y,
                  ast.Gt: lambda x, y: x > y, ast.Eq: lambda x, y: x == y}.get(type(op))
            if fn is None:
                _bad(node, "comparison operator")
            return ("static", fn(a[1], b[1]))
        q = a[0] == "Q"
        le, lt, eq = ("Qle_bool", "Qlt_bool", "Qeq_bool") if q else ("Z.leb", "Z.ltb", "Z.eqb")
        if isinstance(op, ast.LtE):
            return Bv(f"({le} {a[1]} {b[1]})")
        if isinstance(op, ast.Lt):
            return Bv(f"({lt} {a[1]} {b[1]})")
        if isinstance(op, ast.GtE):
            return Bv(f"({le} {b[1]} {a[1]})")
        if isinstance(op, ast.Gt):
            return Bv(f"({lt} {b[1]} {a[1]})")
        if isinstance(op, ast.Eq):
            return Bv(f"({eq} {a[1]} {b[1]})")
        _bad(node, "comparison operator")

    def compare(self, node, env, heap):
        # static tests first
        if len(node.ops) == 1 and isinstance(node.ops[0], (ast.Is, ast.IsNot)):
            pos = isinstance(node.ops[0], ast.Is)
            left, right = node.left, node.comparators[0]
            # type(x) is C
            if isinstance(left, ast.Call) and isinstance(left.func, ast.Name) and left.func.id == "type" \
                    and isinstance(right, ast.Name):
                v = self.expr(left.args[0], env, heap)
                r = v[0] == "ref" and heap[v[1]]["__class__"] == right.id
                return ("static", r == pos)
            rv = self.expr(right, env, heap)
            if rv == NONE:
                lv = self.expr(left, env, heap)
                return ("static", (lv == NONE) == pos)
            _bad(node, "identity test")
        vals = [self.expr(node.left, env, heap)] + [self.expr(c, env, heap) for c in node.comparators]
        if len(vals) == 2 and vals[1][0] == "L" and vals[1][1] in ("Q", "Z") and vals[0][0] in ("Q", "Z", "num"):
            # numpy broadcasting: scalar < array  ->  boolean array
            c = self.cmp1(node.ops[0], vals[0], (vals[1][1], "x_"), node)
            return ("L", "B", f"(map (fun x_ => {c[1]}) {vals[1][2]})")
        parts = [self.cmp1(op, vals[i], vals[i + 1], node) for i, op in enumerate(node.ops)]
        if len(parts) == 1:
            return parts[0]
        if any(p[0] == "static" and not p[1] for p in parts):
            return ("static", False)
        parts = [p for p in parts if p[0] != "static"]
        return self._fold(parts, True) if parts else ("static", True)

    def resolve(self, tree, node):
        """the result tree of a call inlined inside an expression, on the current path"""
        while tree[0] == "if":
            if tree[1] not in self.assume:
                raise Fork(tree[1])
            tree = tree[2] if self.assume[tree[1]] else tree[3]
        if tree[0] == "raise":
            raise PathRaise(tree[1])
        if tree[0] != "ret":
            _bad(node, "call that can loop inside an expression")
        return tree

    def absorb(self, heap, new):
        """a call inlined inside an expression returned plainly but stored attributes (a memoising getter): the
        stores take effect on the current path (heaps are copied whenever paths diverge)"""
        if new is not heap and new != heap:
            heap.clear()
            heap.update(copy.deepcopy(new))

    def field_value(self, k, text, heap):
        if isinstance(k, tuple) and k[0] == "list":
            return ("L", k[1], text)
        if isinstance(k, tuple) and k[0] == "obj":
            return self.sym_object(k[1], text, heap)
        if k == "None":
            return NONE           # an attribute that is statically None in this configuration
        return (k, text)

    def sym_object(self, cname, var, heap):
        """a symbolic object of a record class whose fields are projections of the Coq term var"""
        rec, fields = self.records[cname]
        oid = max(heap) + 1 if heap else 0
        heap[oid] = {"__class__": cname}
        for attr, fld, k in fields:
            heap[oid][attr] = self.field_value(k, f"({fld} {var})", heap)
        return ("ref", oid)

    def listcomp(self, node, env, heap):
        if len(node.generators) != 1 or node.generators[0].ifs or not isinstance(node.generators[0].target, ast.Name):
            _bad(node, "list comprehension form")
        src = self.expr(node.generators[0].iter, env, heap)
        if src[0] == "pylist":
            # a list display known at translation time: the comprehension is unrolled
            out = []
            for item in src[1]:
                env2 = dict(env)
                env2[node.generators[0].target.id] = item
                out.append(self.expr(node.elt, env2, heap))
            return ("pylist", out)
        if src[0] != "L":
            _bad(node, "comprehension over a non-list")
        var = node.generators[0].target.id
        h2 = copy.deepcopy(heap)
        env2 = dict(env)
        if isinstance(src[1], tuple) and src[1][0] == "obj":
            env2[var] = self.sym_object(src[1][1], "x_", h2)
            heap = copy.deepcopy(h2)      # the element object is not "fresh"
        else:
            env2[var] = (src[1], "x_")
        n0 = len(self.pending)
        v = self.expr(node.elt, env2, h2)
        if len(self.pending) != n0:
            _bad(node, "comprehension element can raise")
        if v[0] == "ref" and v[1] not in heap and h2[v[1]]["__class__"] in getattr(self, "record_ctors", {}):
            # a freshly constructed object of a record class with a stated constructor term
            if any(h2.get(o) != heap[o] for o in heap):
                _bad(node, "comprehension element stores an attribute")
            cname = h2[v[1]]["__class__"]
            return ("L", ("obj", cname), f"(map (fun x_ => {self.record_ctors[cname](self, h2[v[1]], h2)}) {src[2]})")
        if v[0] not in ("Q", "Z", "B"):
            _bad(node, "comprehension element kind")
        return ("L", v[0], f"(map (fun x_ => {v[1]}) {src[2]})")

    def subscript(self, node, env, heap):
        base = self.expr(node.value, env, heap)
        if base[0] in self.value_subscripts:
            return self.value_subscripts[base[0]](self, base, node.slice, env, heap, node)
        if base[0] != "L":
            _bad(node, "subscript of a non-list")
        idx = self.num(self.expr(node.slice, env, heap))
        if idx[0] == "Q":
            _bad(node, "float index")
        idx = self.toZ(idx)
        cnt = self._fresh = getattr(self, "_fresh", 0) + 1
        var = f"e_{cnt}"
        self.pending.append(("bind", f"(pyindex {base[2]} {idx[1]})", var, "IndexError"))
        if isinstance(base[1], tuple) and base[1][0] == "obj":
            # NOTE: the object is allocated in the caller's heap copy; attribute reads only
            return ("symobj", base[1][1], var)
        return (base[1], var)

    def load_attr(self, node, env, heap):
        # module constants: validity.X, math.pi ...
        dotted = ast.unparse(node)
        if dotted in self.consts:
            return self.consts[dotted]
        base = self.expr(node.value, env, heap)
        if base[0] == "symobj":
            heap = copy.deepcopy(heap)
            base = self.sym_object(base[1], base[2], heap)
        if (base[0], node.attr) in self.value_attrs:
            return self.value_attrs[(base[0], node.attr)](self, base, node)
        if base[0] != "ref":
            _bad(node, "attribute of a non-object")
        obj = heap[base[1]]
        getter = self.find_member(obj["__class__"], node.attr, "getter")
        if getter is not None:
            tree = self.call_def(getter, [base], {}, heap, lambda v, h: ("ret", v, h))
            tree = self.resolve(tree, node)
            self.absorb(heap, tree[2])
            return tree[1]
        if node.attr in obj:
            return obj[node.attr]
        _bad(node, f"object of class {obj['__class__']} has no attribute")

    # ------------------------------------------------------------------ calls (CPS: k(value, heap) -> tree)
    def call(self, node, env, heap, k):
        f = node.func
        if node.keywords:
            kw = {x.arg: x.value for x in node.keywords}
        else:
            kw = {}
        fname = ast.unparse(f)
        if isinstance(f, ast.Name) and f.id in env and env[f.id][0] == "fn":
            fname = env[f.id][1]      # a parameter bound to a library function (e.g. comparator=np.amin)
            if fname not in self.prims:
                _bad(node, "call of a function value without a stated meaning")
        # -- ignored side-effect-free library calls
        if fname in ("warnings.warn",):
            return k(NONE, heap)
        # -- primitives
        if fname == "bool" and len(node.args) == 1:
            return k(self.truth(self.expr(node.args[0], env, heap), node), heap)
        if fname in ("float", "int") and len(node.args) == 1:
            _bad(node, "numeric conversion")
        if fname in ("max", "min") and len(node.args) == 2 and not kw:
            a, b = self.unify(self.num(self.expr(node.args[0], env, heap)), self.num(self.expr(node.args[1], env, heap)), node)
            fn = {"Q": {"max": "Qmax", "min": "Qmin"}, "Z": {"max": "Z.max", "min": "Z.min"}}[a[0]][fname]
            return k((a[0], f"({fn} {a[1]} {b[1]})"), heap)
        if fname == "abs" and len(node.args) == 1 and not kw:
            x = self.num(self.expr(node.args[0], env, heap))
            if x[0] == "num":
                return k(("num", abs(x[1])), heap)
            return k((x[0], f"({'Qabs' if x[0] == 'Q' else 'Z.abs'} {x[1]})"), heap)
        if fname == "round" and 1 <= len(node.args) <= 2:
            x = self.toQ(self.num(self.expr(node.args[0], env, heap)))
            n = self.expr(node.args[1], env, heap) if len(node.args) == 2 else NONE
            if n[0] != "nat":
                _bad(node, "round needs a digit count of kind nat")
            return k(Qv(f"(qround {n[1]} {x[1]})"), heap)
        if fname in self.prims:
            args = [self.expr(a, env, heap) for a in node.args]
            return k(self.prims[fname](self, args, node), heap)
        if fname == "len" and len(node.args) == 1 and not kw:
            v = self.expr(node.args[0], env, heap)
            if ("len", v[0]) in self.prims:
                return k(self.prims[("len", v[0])](self, [v], node), heap)
            _bad(node, "len of this kind of value")
        if fname == "isinstance" and len(node.args) == 2:
            v = self.expr(node.args[0], env, heap)
            alts = node.args[1].elts if isinstance(node.args[1], ast.Tuple) else [node.args[1]]
            return k(("static", any([self.isinstance1(v, ast.unparse(c), heap, node) for c in alts])), heap)
        if fname == "hasattr" and len(node.args) == 2:
            v = self.expr(node.args[0], env, heap)
            a = self.expr(node.args[1], env, heap)
            if a[0] == "S" and (v[0], a[1]) in getattr(self, "value_hasattr", {}):
                # an opaque value kind: which attributes it carries is part of the stated configuration
                return k(("static", self.value_hasattr[(v[0], a[1])]), heap)
            if v[0] != "ref" or a[0] != "S":
                _bad(node, "hasattr")
            return k(("static", a[1] in heap[v[1]]), heap)
        # -- type(self)(...) / ClassName(...)
        if isinstance(f, ast.Call) and isinstance(f.func, ast.Name) and f.func.id == "type" and len(f.args) == 1:
            v = self.expr(f.args[0], env, heap)
            if v[0] != "ref":
                _bad(node, "type() of a non-object")
            return self.construct(heap[v[1]]["__class__"], node, env, heap, k)
        if isinstance(f, ast.Name) and self.find_class(f.id) is not None:
            return self.construct(f.id, node, env, heap, k)
        args = [self.expr(a, env, heap) for a in node.args]
        kwv = {n: self.expr(v, env, heap) for n, v in kw.items()}
        # -- module level function
        if isinstance(f, ast.Name):
            d = self.find_func(f.id)
            if d is None:
                _bad(node, "unknown function")
            return self.call_def(d, args, kwv, heap, k)
        if isinstance(f, ast.Attribute):
            # module.function
            if isinstance(f.value, ast.Name) and f.value.id not in env and self.find_class(f.value.id) is None:
                d = self.find_func(f.attr)
                if d is None or fname in self.consts:
                    _bad(node, "unknown function")
                return self.call_def(d, args, kwv, heap, k)
            # Class.method(self, ...)
            if isinstance(f.value, ast.Name) and self.find_class(f.value.id) is not None and f.value.id not in env:
                d = self.find_member(f.value.id, f.attr, "method")
                if d is None:
                    _bad(node, "unknown method")
                return self.call_def(d, args, kwv, heap, k)
            # obj.method(...)
            base = self.expr(f.value, env, heap)
            if (base[0], f.attr) in self.value_methods_kw:
                return k(self.value_methods_kw[(base[0], f.attr)](self, base, args, kwv, node), heap)
            if (base[0], f.attr) in self.value_methods:
                if kw:
                    _bad(node, "keyword arguments of a value method")
                return k(self.value_methods[(base[0], f.attr)](self, base, args, node), heap)
            if base[0] != "ref":
                _bad(node, "method of a non-object")
            d = self.find_member(heap[base[1]]["__class__"], f.attr, "method")
            if d is None:
                _bad(node, "unknown method")
            if d.decorator_list:      # staticmethod (find_member admits nothing else): no self
                return self.call_def(d, args, kwv, heap, k)
            return self.call_def(d, [base] + args, kwv, heap, k)
        _bad(node, "call")

    def isinstance1(self, v, cname, heap, node):
        if cname in self.consts and self.consts[cname][0] == "numtypes":
            return v[0] in ("Q", "Z", "num", "nat")
        if cname in self.consts and self.consts[cname][0] == "inttypes":
            return v[0] in ("Z", "num", "nat")
        if cname == "type(None)":
            return v == NONE
        if v[0] in self.value_isinstance:      # opaque value kinds: the classes they are instances of
            return cname in self.value_isinstance[v[0]]
        if self.find_class(cname) is None:
            _bad(node, "isinstance of an unknown class")
        return v[0] == "ref" and self.is_subclass(heap[v[1]]["__class__"], cname)

    def construct(self, cname, node, env, heap, k):
        args = [self.expr(a, env, heap) for a in node.args]
        kwv = {x.arg: self.expr(x.value, env, heap) for x in node.keywords}
        heap = copy.deepcopy(heap)
        oid = max(heap) + 1 if heap else 0
        heap[oid] = {"__class__": cname}
        init = self.find_member(cname, "__init__", "method")
        if init is None:
            _bad(node, "class without __init__")
        return self.call_def(init, [("ref", oid)] + args, kwv, heap, lambda v, h: k(("ref", oid), h))

    def call_def(self, d, args, kwv, heap, k):
        params = [a.arg for a in d.args.args]
        if d.args.vararg or d.args.kwarg or d.args.kwonlyargs:
            _bad(d, "argument form")
        env = {}
        defaults = d.args.defaults
        for i, p in enumerate(params):
            if i < len(args):
                env[p] = args[i]
            elif p in kwv:
                env[p] = kwv[p]
            else:
                j = i - (len(params) - len(defaults))
                if j < 0:
                    _bad(d, f"missing argument {p}")
                env[p] = self.expr(defaults[j], {}, heap)
        if len(args) > len(params):
            _bad(d, "too many arguments")
        env["__params__"] = ("params", [env[p] for p in params])
        self._depth = getattr(self, "_depth", 0) + 1
        if self._depth > 40:
            _bad(d, "inlining depth (recursion?)")
        try:
            return self.block(d.body, env, heap, k, lambda e, h: k(NONE, h), d)
        finally:
            self._depth -= 1

    # ------------------------------------------------------------------ statements
    def block(self, stmts, env, heap, k_ret, k_end, fn):
        if not stmts:
            return k_end(env, heap)
        saved, self.pending = self.pending, []
        mine = self.pending
        env0, heap0 = dict(env), copy.deepcopy(heap)
        try:
            tree = self.block1(stmts, env, heap, k_ret, k_end, fn)
        except Fork as f:
            if f.cond in self.assume:
                raise
            del mine[:]
            branches = []
            for val in (True, False):
                self.assume[f.cond] = val
                try:
                    branches.append(self.block(stmts, dict(env0), copy.deepcopy(heap0), k_ret, k_end, fn))
                finally:
                    del self.assume[f.cond]
            tree = self.mk_if(f.cond, branches[0], branches[1])
        except PathRaise as r:
            tree = ("raise", r.exc)
        finally:
            self.pending = saved
        # exceptions the evaluation of this statement's expressions can raise, outermost first
        for g in reversed(mine):
            if g[0] == "guard":
                tree = self.mk_if(g[1], ("raise", g[2]), tree)
            elif g[0] == "defer":
                tree = self.defer(tree, g[1], g[2], g[3])
            else:
                tree = ("bind", g[1], g[2], tree, g[3])
        return tree

    def defer(self, t, cond, exc, taint):
        """a guard that takes effect where the function returns normally (div_mode "nan")"""
        if t[0] == "ret":
            return ("if", cond, ("raise", exc), t)
        if t[0] == "raise":
            return t
        if t[0] == "if":
            if taint in t[1]:
                raise TranslationError(f"condition depends on a quotient that may be nan: {t[1][:100]}")
            return self.mk_if(t[1], self.defer(t[2], cond, exc, taint), self.defer(t[3], cond, exc, taint))
        if t[0] == "bind":
            if taint in t[1]:
                raise TranslationError(f"index depends on a quotient that may be nan: {t[1][:100]}")
            return ("bind", t[1], t[2], self.defer(t[3], cond, exc, taint), t[4])
        if t[0] in ("loop", "loopr", "forret"):
            if taint in t[1]:
                raise TranslationError(f"loop depends on a quotient that may be nan: {t[1][:100]}")
            return t[:3] + tuple(self.defer(x, cond, exc, taint) for x in t[3:])
        raise TranslationError("tree")

    def aliased(self, name, v, env, heap):
        """conservative: is a value equal to v reachable from another local, a parameter or an attribute?"""
        def inside(x):
            if x == v:
                return True
            if isinstance(x, (tuple, list)):
                return any(inside(y) for y in x)
            if isinstance(x, dict):
                return any(inside(y) for y in x.values())
            return False
        return any(inside(x) for n, x in env.items() if n != name) or inside(heap)

    def block1(self, stmts, env, heap, k_ret, k_end, fn):
        s, rest = stmts[0], stmts[1:]

        def cont(env, heap):
            return self.block(rest, env, heap, k_ret, k_end, fn)
        if isinstance(s, ast.Expr):
            if isinstance(s.value, ast.Constant) and isinstance(s.value.value, str):
                return cont(env, heap)  # docstring
            c = s.value
            if isinstance(c, ast.Call) and isinstance(c.func, ast.Attribute) and c.func.attr == "append" \
                    and isinstance(c.func.value, ast.Name) and env.get(c.func.value.id, NONE)[0] == "pylist":
                # in-place growth of a list display held by exactly one local
                nm = c.func.value.id
                if len(c.args) != 1 or c.keywords:
                    _bad(s, "append form")
                if self.aliased(nm, env[nm], env, heap):
                    _bad(s, "append to a list that may be shared")
                v = self.expr(c.args[0], env, heap)
                env = dict(env)
                env[nm] = ("pylist", list(env[nm][1]) + [v])
                return cont(env, heap)
            if isinstance(c, ast.Call):
                return self.call(c, env, heap, lambda v, h: cont(env, h))
            _bad(s, "expression statement")
        if isinstance(s, ast.For):
            return self.for_loop(s, env, heap, cont, k_ret, fn)
        if isinstance(s, ast.Return):
            if s.value is None:
                return k_ret(NONE, heap)
            if isinstance(s.value, ast.Call):
                return self.call(s.value, env, heap, k_ret)
            return k_ret(self.expr(s.value, env, heap), heap)
        if isinstance(s, ast.Assert):
            c = self.truth(self.expr(s.test, env, heap), s)
            if c[0] == "static":
                return cont(env, heap) if c[1] else ("raise", "AssertionError")
            return self.mk_if(c[1], cont(env, heap), ("raise", "AssertionError"))
        if isinstance(s, ast.Raise):
            name = ast.unparse(s.exc.func if isinstance(s.exc, ast.Call) else s.exc) if s.exc else "Exception"
            return ("raise", name)
        if isinstance(s, ast.If):
            c = self.truth(self.expr(s.test, env, heap), s)
            if c[0] == "B" and c[1] in self.assume:
                c = ("static", self.assume[c[1]])
            if c[0] == "static":
                return self.block((s.body if c[1] else s.orelse) + rest, env, heap, k_ret, k_end, fn)
            t1 = self.block(s.body + rest, dict(env), copy.deepcopy(heap), k_ret, k_end, fn)
            t2 = self.block(s.orelse + rest, dict(env), copy.deepcopy(heap), k_ret, k_end, fn)
            return self.mk_if(c[1], t1, t2)
        if isinstance(s, (ast.Assign, ast.AugAssign, ast.AnnAssign)):
            if isinstance(s, ast.AugAssign):
                tgt = s.target
                val_node = ast.BinOp(left=copy.deepcopy(s.target), op=s.op, right=s.value)
                ast.copy_location(val_node, s)
                for n in ast.walk(val_node):
                    if isinstance(n, (ast.Name, ast.Attribute)):
                        n.ctx = ast.Load()
                targets = [tgt]
            elif isinstance(s, ast.AnnAssign):
                if s.value is None:
                    return cont(env, heap)
                targets, val_node = [s.target], s.value
            else:
                targets, val_node = s.targets, s.value
            if len(targets) != 1:
                _bad(s, "chained assignment")

            def store(v, h):
                return self.assign(targets[0], v, env, h, cont, s)
            if isinstance(val_node, ast.Call):
                return self.call(val_node, env, heap, store)
            return store(self.expr(val_node, env, heap), heap)
        if isinstance(s, ast.While):
            return self.loop(s, env, heap, cont, fn)
        if isinstance(s, ast.Pass):
            return cont(env, heap)
        if isinstance(s, ast.Delete):
            for t in s.targets:
                if not isinstance(t, ast.Attribute):
                    _bad(s, "del")
                b = self.expr(t.value, env, heap)
                heap = copy.deepcopy(heap)
                heap[b[1]].pop(t.attr, None)
            return cont(env, heap)
        _bad(s, "statement kind")

    def assign(self, tgt, v, env, heap, cont, s):
        if isinstance(tgt, ast.Name):
            env = dict(env)
            env[tgt.id] = v
            return cont(env, heap)
        if isinstance(tgt, ast.Tuple):
            if v[0] != "tup" or len(v[1]) != len(tgt.elts) or not all(isinstance(e, ast.Name) for e in tgt.elts):
                _bad(s, "tuple assignment")
            env = dict(env)
            for e, x in zip(tgt.elts, v[1]):
                env[e.id] = x
            return cont(env, heap)
        if isinstance(tgt, ast.Attribute):
            base = self.expr(tgt.value, env, heap)
            if base[0] != "ref":
                _bad(s, "attribute store on a non-object")
            setter = self.find_member(heap[base[1]]["__class__"], tgt.attr, "setter")
            if setter is not None:
                return self.call_def(setter, [base, v], {}, heap, lambda r, h: cont(env, h))
            if self.find_member(heap[base[1]]["__class__"], tgt.attr, "getter") is not None:
                _bad(s, "store to a read-only property")
            heap = copy.deepcopy(heap)
            heap[base[1]][tgt.attr] = v
            return cont(env, heap)
        if isinstance(tgt, ast.Subscript) and isinstance(tgt.value, ast.Name) and tgt.value.id in env \
                and env[tgt.value.id][0] in self.value_subscript_stores:
            nm = tgt.value.id
            if self.aliased(nm, env[nm], env, heap):
                _bad(s, "store into an array that may be shared")
            new = self.value_subscript_stores[env[nm][0]](self, env[nm], tgt.slice, v, env, heap, s)
            env = dict(env)
            env[nm] = new
            return cont(env, heap)
        _bad(s, "assignment target")

    def mk_if(self, c, t1, t2):
        if t1 == t2:
            return t1
        return ("if", c, t1, t2)

    def for_loop(self, s, env, heap, cont, k_ret, fn):
        """for <target> in <python list display known at translation time>: unrolled.
        for x in <Coq list>: see for_find."""
        if s.orelse:
            _bad(s, "for-else")
        it = self.expr(s.iter, env, heap)
        if it[0] == "L":
            if self.is_map_loop(s, env):
                return self.for_map(s, it, env, heap, cont, fn)
            return self.for_find(s, it, env, heap, cont, k_ret, fn)
        if it[0] != "pylist":
            _bad(s, "for over this kind of value")
        items = it[1]

        def step(i, env, heap):
            if i == len(items):
                return cont(env, heap)
            return self.assign(s.target, items[i], env, heap,
                               lambda e, h: self.block(s.body, e, h, k_ret, lambda e2, h2: step(i + 1, e2, h2), fn), s)
        return step(0, env, heap)

    def is_map_loop(self, s, env):
        last = s.body[-1]
        return (isinstance(last, ast.Expr) and isinstance(last.value, ast.Call)
                and isinstance(last.value.func, ast.Attribute) and last.value.func.attr == "append"
                and isinstance(last.value.func.value, ast.Name)
                and env.get(last.value.func.value.id, NONE) == ("pylist", []))

    def for_map(self, s, it, env, heap, cont, fn):
        """acc = []; for x in <Coq list>: <straight-line / branching statements on locals>; acc.append(E)
        ->  acc = map (fun x => E') l.  Every iteration reaches the append exactly once; the body may not return,
        break, continue, raise, loop, store an attribute of an object that existed before the iteration, or mention acc;
        the locals it assigns may not be read after the loop."""
        call = s.body[-1].value
        acc = call.func.value.id
        if len(call.args) != 1 or call.keywords:
            _bad(s, "append form")
        if not isinstance(s.target, ast.Name):
            _bad(s, "for target")
        if self.aliased(acc, env[acc], env, heap):
            _bad(s, "append to a list that may be shared")
        pre = s.body[:-1]
        for st in pre + [call.args[0]]:
            for n in ast.walk(st):
                if isinstance(n, (ast.Return, ast.Break, ast.Continue, ast.While, ast.For)):
                    _bad(s, "control flow inside a list-building loop")
                if isinstance(n, ast.Name) and n.id == acc:
                    _bad(s, "the list being built is mentioned inside the loop")
        assigned = {n.id for st in pre for n in ast.walk(st) if isinstance(n, ast.Name) and isinstance(n.ctx, ast.Store)}
        assigned.add(s.target.id)
        for n in ast.walk(fn):
            if isinstance(n, ast.Name) and isinstance(n.ctx, ast.Load) and n.id in assigned \
                    and getattr(n, "lineno", 0) > s.end_lineno:
                _bad(s, f"local {n.id} of a list-building loop is read after the loop")
        cnt = self._fresh = getattr(self, "_fresh", 0) + 1
        mv = f"m_{cnt}"
        var, ek = s.target.id, it[1]
        h2, env2 = copy.deepcopy(heap), dict(env)
        del env2[acc]
        if isinstance(ek, tuple) and ek[0] == "obj":
            env2[var] = self.sym_object(ek[1], mv, h2)
        elif ek in ("Q", "Z") or ek in self.value_types:
            env2[var] = (ek, mv)
        else:
            _bad(s, "for over a list of this element kind")
        h0 = copy.deepcopy(h2)
        ret = ast.Return(value=call.args[0])
        ast.copy_location(ret, s.body[-1])

        def no_end(e, h):
            _bad(s, "list-building loop: an iteration ends without appending")
        try:
            body = self.block(pre + [ret], env2, h2, lambda v, h: ("ret", v, h), no_end, fn)
        except PathRaise:
            _bad(s, "loop body raises")
        kinds = set()

        def elem(t):
            v, h = t[1], t[2]
            if any(h.get(o) != h0[o] for o in h0):
                _bad(s, "loop body stores an attribute of an object that outlives the iteration")
            if v[0] == "ref" and h[v[1]]["__class__"] in getattr(self, "record_ctors", {}) and v[1] not in h0:
                cname = h[v[1]]["__class__"]
                kinds.add(("obj", cname))
                return self.record_ctors[cname](self, h[v[1]], h)
            if v[0] in ("Q", "Z", "B"):
                kinds.add(v[0])
                return v[1]
            _bad(s, "kind of the appended value")

        def rend(t):
            if t[0] == "if":
                return f"(if {t[1]} then {rend(t[2])} else {rend(t[3])})"
            if t[0] == "ret":
                return elem(t)
            _bad(s, "list-building loop body can raise or loops")
        text = rend(body)
        if len(kinds) != 1:
            _bad(s, "appended values of different kinds")
        env = dict(env)
        env[acc] = ("L", kinds.pop(), f"(map (fun {mv} => {text}) {it[2]})")
        return cont(env, heap)

    def for_find(self, s, it, env, heap, cont, k_ret, fn):
        """for x in <Coq list>: <ifs whose leaves are `return <x | number | bool>` or fall through>
        ->  a structural Fixpoint over the list returning the first returned value (None: the loop ran to its end);
        the body may not assign, store or raise"""
        import re
        if not isinstance(s.target, ast.Name):
            _bad(s, "for target")
        var, ek = s.target.id, it[1]
        h2, env2 = copy.deepcopy(heap), dict(env)
        used = {n.id for n in ast.walk(s) if isinstance(n, ast.Name)}
        ro = sorted(n for n in used if n in env and n != var and env[n][0] in ("Q", "Z"))
        for nm in ro:
            env2[nm] = (env[nm][0], nm)
        if isinstance(ek, tuple) and ek[0] == "obj":
            env2[var] = self.sym_object(ek[1], "x_", h2)
            ety = self.records[ek[1]][0]
        elif ek in ("Q", "Z"):
            env2[var], ety = (ek, "x_"), ek
        elif ek in self.value_types:
            env2[var], ety = (ek, "x_"), self.value_types[ek]
        else:
            _bad(s, "for over a list of this element kind")
        h0 = copy.deepcopy(h2)
        fresh_locals = {n.id for st in s.body for n in ast.walk(st)
                        if isinstance(n, ast.Name) and isinstance(n.ctx, ast.Store) and n.id not in env2}
        for n in ast.walk(fn):
            if isinstance(n, ast.Name) and isinstance(n.ctx, ast.Load) and n.id in fresh_locals \
                    and getattr(n, "lineno", 0) > s.end_lineno:
                _bad(s, f"local {n.id} of a loop is read after the loop")
        try:
            body = self.block(s.body, dict(env2), h2, lambda v, h: ("ret", v, h), lambda e, h: ("next", e, h), fn)
        except PathRaise:
            _bad(s, "loop body raises")
        kinds = set()

        def check(t):
            if t[0] == "if":
                check(t[2])
                check(t[3])
            elif t[0] == "ret":
                if t[2] != h0:
                    _bad(s, "loop body stores an attribute")
                if t[1] == env2[var]:
                    kinds.add("elem")
                elif t[1][0] in ("Q", "Z", "B", "static"):
                    kinds.add("B" if t[1][0] == "static" else t[1][0])
                else:
                    _bad(s, "value returned from inside a for loop")
            elif t[0] == "next":
                if t[2] != h0:
                    _bad(s, "loop body stores an attribute")
                # locals first assigned inside the body live for one iteration (they may not be read after the loop)
                if any(n not in env2 and n not in fresh_locals for n in t[1]) \
                        or any(t[1].get(n) != env2[n] for n in env2 if n != var):
                    _bad(s, "loop body assigns a local variable")
            else:
                _bad(s, "loop body can raise or loops")
        check(body)
        if len(kinds) != 1:
            _bad(s, "for loop without a return, or returning values of different kinds")
        rk = kinds.pop()
        rty = ety if rk == "elem" else {"Q": "Q", "Z": "Z", "B": "bool"}[rk]

        def texts(t):
            if t[0] == "if":
                return [t[1]] + texts(t[2]) + texts(t[3])
            return [self.render_val(t[1], t[2], rty)] if t[0] == "ret" and rk != "elem" else []
        toks = set(re.findall(r"[A-Za-z_][A-Za-z_0-9']*", " ".join(texts(body))))
        extra = [(nm, b) for nm, b in self.cur_binders if nm in toks and nm not in ro]
        if any(nm in ro or nm in ("x_", "r_", "l_") for nm, _ in self.cur_binders if nm in toks):
            _bad(s, "a loop variable has the name of a parameter of the definition")
        rec = " ".join(["@NAME@"] + [nm for nm, _ in extra] + ro + ["r_"])

        def rend(t):
            if t[0] == "if":
                return f"(if {t[1]} then {rend(t[2])} else {rend(t[3])})"
            if t[0] == "next":
                return rec
            return "Some x_" if rk == "elem" else f"Some ({self.render_val(t[1], t[2], rty)})"
        params = " ".join([b for _, b in extra] + [f"({nm} : {env[nm][0]})" for nm in ro])
        text = (f"Fixpoint @NAME@ {params} (l_ : list ({ety})) : option ({rty}) :=\n"
                f"  match l_ with\n  | nil => None\n  | cons x_ r_ => {rend(body)}\n  end.")
        table = self.__dict__.setdefault("aux_by_text", {})
        if text not in table:
            idx = sum(1 for k2 in self.aux_names if k2[0] == fn.name and len(k2) == 3 and k2[1] == "for")
            name = f"{fn.name}_for{idx}"
            self.aux.append(text.replace("@NAME@", name))
            self.aux_names[(fn.name, "for", len(table))] = (name, ro, text)
            table[text] = name
        cnt = self._fresh = getattr(self, "_fresh", 0) + 1
        ovar = f"o_{cnt}"
        h_some = copy.deepcopy(heap)
        if rk == "elem" and isinstance(ek, tuple):
            val = self.sym_object(ek[1], ovar, h_some)
        else:
            val = (ek if rk == "elem" else rk, ovar)
        args = " ".join([nm for nm, _ in extra] + [env[n][1] for n in ro] + [it[2]])
        return ("forret", f"{table[text]} {args}", ovar, k_ret(val, h_some), cont(env, heap))

    def loop(self, s, env, heap, cont, fn):
        """while c: <assignments to local number variables>  ->  Fixpoint with fuel"""
        if s.orelse:
            _bad(s, "while-else")
        assigned = []
        for st in s.body:
            if isinstance(st, ast.Assign) and len(st.targets) == 1 and isinstance(st.targets[0], ast.Name):
                nm = st.targets[0].id
            elif isinstance(st, ast.AugAssign) and isinstance(st.target, ast.Name):
                nm = st.target.id
            else:
                _bad(st, "statement inside a loop")
            if nm not in assigned:
                assigned.append(nm)
        kinds = []
        for nm in assigned:
            if nm not in env or env[nm][0] not in ("Q", "Z"):
                _bad(s, f"loop variable {nm} is not a number")
            kinds.append(env[nm][0])
        key = (fn.name, s.lineno)
        if key in self.aux_names and self.aux_names[key][2] is None:
            name, ro = self.aux_names[key][:2]        # a plain loop already translated
            return self._loop_call(name, ro, [], False, assigned, kinds, env, heap, cont)
        sym = dict(env)
        for nm, kd in zip(assigned, kinds):
            sym[nm] = (kd, nm)
        # read-only variables the loop mentions
        used = {n.id for n in ast.walk(s) if isinstance(n, ast.Name)}
        ro = sorted(n for n in used if n in env and n not in assigned and env[n][0] in ("Q", "Z"))
        for nm in ro:
            sym[nm] = (env[nm][0], nm)
        saved, self.pending = self.pending, []
        try:
            cond = self.truth(self.expr(s.test, sym, heap), s)
            cond_p, self.pending = self.pending, []
            if cond[0] == "static":
                _bad(s, "loop condition decided at translation time")
            body_env = dict(sym)
            for st in s.body:
                if isinstance(st, ast.Assign):
                    body_env[st.targets[0].id] = self.expr(st.value, body_env, heap)
                else:
                    v = ast.BinOp(left=ast.Name(id=st.target.id, ctx=ast.Load()), op=st.op, right=st.value)
                    ast.copy_location(v, st)
                    ast.fix_missing_locations(v)
                    body_env[st.target.id] = self.expr(v, body_env, heap)
            body_p = self.pending
        except (Fork, PathRaise):
            _bad(s, "call that branches or raises inside a loop")
        finally:
            self.pending = saved
        ty = {"Q": "Q", "Z": "Z"}
        rty = " * ".join(ty[k] for k in kinds)
        nxt = " ".join(self.unify(body_env[nm], (kd, "0"), s)[0][1] for nm, kd in zip(assigned, kinds))
        cur = ", ".join(assigned)
        # Coq variables of the enclosing definition that the loop reads through objects / arrays
        import re
        texts = " ".join([cond[1], nxt] + [g[1] for g in cond_p + body_p])
        toks = set(re.findall(r"[A-Za-z_][A-Za-z_0-9']*", texts))
        extra = [(nm, b) for nm, b in self.cur_binders if nm in toks and nm not in ro and nm not in assigned]
        if any(nm in ro or nm in assigned for nm, _ in self.cur_binders if nm in toks and (nm, _) not in extra):
            _bad(s, "a loop variable has the name of a parameter of the definition")
        raising = bool(cond_p or body_p)
        if not raising and not extra:
            idx = sum(1 for k2 in self.aux_names if k2[0] == fn.name)
            name = f"{fn.name}_loop{idx}"
            params = " ".join(f"({nm} : {ty[k]})" for nm, k in zip(ro + assigned, [env[n][0] for n in ro] + kinds))
            text = (f"Fixpoint {name} (fuel : nat) {params} : option ({rty}) :=\n"
                    f"  match fuel with\n  | O => None\n"
                    f"  | S fuel' => if {cond[1]} then {name} fuel' {' '.join(ro)} {nxt} else Some ({cur})\n  end.")
            self.aux.append(text)
            self.aux_names[key] = (name, ro, None)
            return self._loop_call(name, ro, [], False, assigned, kinds, env, heap, cont)
        # general form: the condition / the body can raise (indexing), or reads parameters of the definition
        if any(g[0] == "defer" for g in cond_p + body_p):
            _bad(s, "division that may give nan inside a loop")
        params = " ".join([b for _, b in extra] +
                          [f"({nm} : {ty[k]})" for nm, k in zip(ro + assigned, [env[n][0] for n in ro] + kinds)])

        def wrap(pend, inner):
            for g in reversed(pend):
                if g[0] == "guard":
                    inner = f"if {g[1]} then Some {self.err_text(g[2])} else {inner}"
                else:
                    inner = f"match {g[1]} with Some {g[2]} => {inner} | None => Some {self.err_text(g[3])} end"
            return inner
        okc = f"Some ({self.ok_ctor} ({cur}))" if raising else f"Some ({cur})"
        rec = " ".join(["@NAME@", "fuel'"] + [nm for nm, _ in extra] + ro) + " " + nxt
        body = wrap(cond_p, f"if {cond[1]} then {wrap(body_p, rec)} else {okc}")
        # bound variables get loop-local names, so that the same loop always has the same text
        for i, g in enumerate(x for x in cond_p + body_p if x[0] == "bind"):
            body = re.sub(r"\b%s\b" % re.escape(g[2]), f"w_{i}", body)
        rtype = f"option ({self.res_type} ({rty}))" if raising else f"option ({rty})"
        text = (f"Fixpoint @NAME@ (fuel : nat) {params} : {rtype} :=\n"
                f"  match fuel with\n  | O => None\n  | S fuel' => {body}\n  end.")
        table = self.__dict__.setdefault("aux_by_text", {})
        if text not in table:
            idx = sum(1 for k2 in self.aux_names if k2[0] == fn.name and not (len(k2) == 3 and k2[1] == "for"))
            name = f"{fn.name}_loop{idx}"
            self.aux.append(text.replace("@NAME@", name))
            self.aux_names[(fn.name, s.lineno, len(table))] = (name, ro, text)
            table[text] = name
        return self._loop_call(table[text], ro, [nm for nm, _ in extra], raising, assigned, kinds, env, heap, cont)

    def _loop_call(self, name, ro, extra, raising, assigned, kinds, env, heap, cont):
        cnt = self._fresh = getattr(self, "_fresh", 0) + 1
        new = [f"{nm}_{cnt}" for nm in assigned]
        env2 = dict(env)
        for nm, nn, kd in zip(assigned, new, kinds):
            env2[nm] = (kd, nn)
        args = " ".join(extra + [env[n][1] for n in ro] + [env[n][1] for n in assigned])
        return ("loopr" if raising else "loop", f"{name} fuel {args}", new, cont(env2, heap))

    # ------------------------------------------------------------------ driver / rendering
    def translate(self, name, target, params, ret, comment=""):
        """target: ('func', fname) | ('method', cls, mname) | ('ctor', cls) | ('getter', cls, name);
        params: list of (coq name, kind [, class]) with kind in Q Z nat obj; returns the Coq definition text"""
        heap, args, binders = {}, [], []
        for p in params:
            nm, kind = p[0], p[1]
            if kind in ("Q", "Z", "nat"):
                args.append((kind, nm))
                binders.append(f"({nm} : {kind})")
            elif kind in getattr(self, "param_kinds", {}):
                val, binder = self.param_kinds[kind](nm)
                args.append(val)
                binders.append(binder)
            elif kind == "list":
                ek = p[2]
                if isinstance(ek, tuple):
                    args.append(("L", ek, nm))
                    binders.append(f"({nm} : list {self.records[ek[1]][0]})")
                else:
                    args.append(("L", ek, nm))
                    binders.append(f"({nm} : list {ek})")
            elif kind == "obj":
                cname = p[2]
                rec, fields = self.records[cname]
                oid = len(heap)
                heap[oid] = {"__class__": cname}
                for attr, fld, k in fields:
                    heap[oid][attr] = self.field_value(k, f"({fld} {nm})", heap)
                args.append(("ref", oid))
                binders.append(f"({nm} : {rec})")
            else:
                raise TranslationError(f"parameter kind {kind}")
        self._depth = 0
        self.cur_binders = [(b[1:].split(" : ")[0].strip(), b) for b in binders]
        k = lambda v, h: ("ret", v, h)
        if target[0] == "func":
            d = self.find_func(target[1])
            if d is None:
                raise TranslationError(f"function {target[1]} not found")
            tree = self.call_def(d, args, {}, heap, k)
        elif target[0] in ("method", "getter"):
            d = self.find_member(target[1], target[2], "method" if target[0] == "method" else "getter")
            if d is None:
                raise TranslationError(f"{target[1]}.{target[2]} not found")
            tree = self.call_def(d, args, {}, heap, k)
        elif target[0] == "ctor":
            heap = copy.deepcopy(heap)
            oid = len(heap)
            heap[oid] = {"__class__": target[1]}
            init = self.find_member(target[1], "__init__", "method")
            tree = self.call_def(init, [("ref", oid)] + args, {}, heap, lambda v, h: ("ret", ("ref", oid), h))
        else:
            raise TranslationError("target")
        has_raise = self.any_node(tree, "raise")
        has_loop = self.any_node(tree, "loop") or self.any_node(tree, "loopr")
        has_none = self.any_ret(tree, lambda v: v == NONE)
        has_val = self.any_ret(tree, lambda v: v != NONE)
        opt_val = has_none and has_val
        body = self.render(tree, ret, has_raise, has_loop, opt_val)
        ty = ret
        if opt_val:
            ty = f"option ({ty})"
        if has_raise:
            ty = f"{self.res_type} ({ty})"
        if has_loop:
            ty = f"option ({ty})"
            binders = ["(fuel : nat)"] + binders
        cm = f"(* {comment} *)\n" if comment else ""
        return f"{cm}Definition {name} {' '.join(binders)} : {ty} :=\n  {body}."

    def any_node(self, t, tag):
        if t[0] == tag or (tag == "raise" and t[0] in ("bind", "loopr")):
            return True
        if t[0] == "bind":
            return self.any_node(t[3], tag)
        if t[0] == "if":
            return self.any_node(t[2], tag) or self.any_node(t[3], tag)
        if t[0] in ("loop", "loopr"):
            return self.any_node(t[3], tag)
        if t[0] == "forret":
            return self.any_node(t[3], tag) or self.any_node(t[4], tag)
        return False

    def any_ret(self, t, pred):
        if t[0] == "ret":
            return pred(t[1])
        if t[0] == "bind":
            return self.any_ret(t[3], pred)
        if t[0] == "if":
            return self.any_ret(t[2], pred) or self.any_ret(t[3], pred)
        if t[0] in ("loop", "loopr"):
            return self.any_ret(t[3], pred)
        if t[0] == "forret":
            return self.any_ret(t[3], pred) or self.any_ret(t[4], pred)
        return False

    def render_val(self, v, heap, ret):
        if v[0] in ("Q", "Z", "B", "nat"):
            return v[1]
        if v[0] == "num":
            return qlit(v[1]) if ret == "Q" else (f"{v[1]}%Z" if v[1] >= 0 else f"({v[1]})%Z")
        if v[0] == "static":
            return "true" if v[1] else "false"
        if v[0] == "L":
            return v[2]
        if v[0] == "tup":
            return "(" + ", ".join(self.render_val(x, heap, ret) for x in v[1]) + ")"
        if v[0] == "symobj":
            return v[2]
        if v[0] == "ref" and heap[v[1]]["__class__"] in self.object_renderers:
            return self.object_renderers[heap[v[1]]["__class__"]](self, heap[v[1]], heap, ret)
        if v[0] == "ref":
            obj = heap[v[1]]
            rec, fields = self.records[obj["__class__"]]
            extra = set(obj) - {"__class__"} - {a for a, _, _ in fields}
            if extra:
                raise TranslationError(f"object of class {obj['__class__']} carries attributes outside its record: {sorted(extra)}")
            return "{| " + "; ".join(
                f"{fld} := {self.toQ(obj[a])[1] if k == 'Q' else self.render_val(obj[a], heap, ret) if obj[a][0] == 'ref' else obj[a][1]}"
                for a, fld, k in fields) + " |}"
        if v[0] in getattr(self, "renderers", {}):
            return self.renderers[v[0]](self, v)
        raise TranslationError(f"cannot render a value of kind {v[0]}")

    def render(self, t, ret, has_raise, has_loop, opt_val, ind="  "):
        if t[0] == "ret":
            if t[1] == NONE and opt_val:
                s = "None"
            elif t[1] == NONE:
                s = "tt"
            else:
                s = self.render_val(t[1], t[2], ret)
                if opt_val:
                    s = f"Some ({s})"
            if has_raise:
                s = f"{self.ok_ctor} ({s})"
            if has_loop:
                s = f"Some ({s})"
            return s
        if t[0] == "raise":
            return f"Some {self.err_text(t[1])}" if has_loop else self.err_text(t[1])
        if t[0] == "if":
            a = self.render(t[2], ret, has_raise, has_loop, opt_val, ind + "  ")
            b = self.render(t[3], ret, has_raise, has_loop, opt_val, ind + "  ")
            return f"if {t[1]}\n{ind}then {a}\n{ind}else {b}"
        if t[0] == "bind":
            sub = self.render(t[3], ret, has_raise, has_loop, opt_val, ind + "  ")
            err = f"Some {self.err_text(t[4])}" if has_loop else self.err_text(t[4])
            return f"match {t[1]} with\n{ind}| Some {t[2]} => {sub}\n{ind}| None => {err}\n{ind}end"
        if t[0] == "loop":
            pat = ", ".join(t[2])
            sub = self.render(t[3], ret, has_raise, has_loop, opt_val, ind + "  ")
            return f"match {t[1]} with\n{ind}| None => None\n{ind}| Some ({pat}) => {sub}\n{ind}end"
        if t[0] == "forret":
            a = self.render(t[3], ret, has_raise, has_loop, opt_val, ind + "  ")
            b = self.render(t[4], ret, has_raise, has_loop, opt_val, ind + "  ")
            return f"match {t[1]} with\n{ind}| Some {t[2]} => {a}\n{ind}| None => {b}\n{ind}end"
        if t[0] == "loopr":
            pat = ", ".join(t[2])
            sub = self.render(t[3], ret, has_raise, has_loop, opt_val, ind + "  ")
            return (f"match {t[1]} with\n{ind}| None => None\n{ind}| Some {self.err_pat} => Some {self.err_pat}\n"
                    f"{ind}| Some ({self.ok_ctor} ({pat})) => {sub}\n{ind}end")
        raise TranslationError("tree")


def emit_file(tr, header, jobs, section_vars=""):
    """jobs: list of (coq name, target, params, ret, comment); returns the text of the generated file"""
    defs = [tr.translate(nm, tg, ps, rt, cm) for nm, tg, ps, rt, cm in jobs]
    srcs = ", ".join(f"{m.path} sha1={tr.sources[m.name]}" for m in tr.modules.values())
    out = [f"(* GENERATED on every run by harness/vlib/py2coq.py (symbolic execution of the Python source). Do not edit.",
           f"   sources: {srcs} *)", header, ""]
    if section_vars:
        out += ["Section Src.", section_vars, ""]
    out += tr.aux + [""] + defs
    if section_vars:
        out += ["End Src."]
    return "\n".join(out) + "\n"


def write_if_changed(path, text):
    if not os.path.exists(path) or open(path).read() != text:
        with open(path, "w") as f:
            f.write(text)
        return True
    return False
